//! C11 — bounded memory per connection: the timestamp table keeps one entry per
//! (connection, direction) however many segments arrive.  (The TLS reader's retained-bytes bound
//! is asserted inside the inductive-step harnesses c08::c08_step_*.)
use huginn_net_tcp::uptime::verif_hooks as hk;
use huginn_net_tcp::uptime::{check_ts_tcp, Connection, ConnectionKey, TcpTimestamp};
use std::net::{IpAddr, Ipv4Addr};
use ttl_cache::TtlCache;

fn conn(sp: u16, dp: u16) -> Connection {
    Connection {
        src_ip: IpAddr::V4(Ipv4Addr::new(10, 0, 0, 1)),
        src_port: sp,
        dst_ip: IpAddr::V4(Ipv4Addr::new(10, 0, 0, 2)),
        dst_port: dp,
    }
}

fn set_clocks(ms: u64) {
    hk::set_clock_ms(ms);
    ttl_cache::set_now_ms(ms);
}

/// four timestamped segments of one endpoint (any TSvals, so valid, invalid and marker paths):
/// the table holds exactly one entry afterwards
fn one_entry_per_endpoint(fc: bool, gap: u64) {
    let mut table: TtlCache<ConnectionKey, TcpTimestamp> = TtlCache::new(4);
    let c = conn(40000, 80);
    let t0: u64 = 1_700_000_000_000;
    let mut i = 0u64;
    while i < 4 {
        set_clocks(t0 + i * gap);
        let _ = check_ts_tcp(&mut table, &c, fc, kani::any());
        assert!(table.model_len() == 1, "C11 one table entry per (connection, direction)");
        i += 1;
    }
    core::mem::forget(table);
}

macro_rules! table_harness {
    ($name:ident, $fc:expr, $gap:expr) => {
        #[kani::proof]
        #[kani::stub(alloc::fmt::format, crate::util::stub_format)]
        #[kani::stub(huginn_net_tcp::uptime::calculate_uptime_from_frequency, crate::c19::stub_uptime)]
        #[kani::stub(huginn_net_tcp::uptime::guess_frequency, crate::c19::stub_guess)]
        #[kani::stub(huginn_net_tcp::uptime::round_frequency_p0f_style, crate::c19::stub_round)]
        #[kani::unwind(6)]
        pub fn $name() {
            one_entry_per_endpoint($fc, $gap)
        }
    };
}
table_harness!(c11_table_cli_1000, true, 1000);
table_harness!(c11_table_srv_1000, false, 1000);
table_harness!(c11_table_cli_10, true, 10);

/// both directions of a connection: two entries, never more
#[kani::proof]
#[kani::stub(alloc::fmt::format, crate::util::stub_format)]
#[kani::stub(huginn_net_tcp::uptime::calculate_uptime_from_frequency, crate::c19::stub_uptime)]
#[kani::stub(huginn_net_tcp::uptime::guess_frequency, crate::c19::stub_guess)]
#[kani::stub(huginn_net_tcp::uptime::round_frequency_p0f_style, crate::c19::stub_round)]
#[kani::unwind(6)]
pub fn c11_table_two_directions() {
    let mut table: TtlCache<ConnectionKey, TcpTimestamp> = TtlCache::new(4);
    let c = conn(40000, 80);
    let t0: u64 = 1_700_000_000_000;
    set_clocks(t0);
    let _ = check_ts_tcp(&mut table, &c, true, kani::any());
    set_clocks(t0 + 500);
    let _ = check_ts_tcp(&mut table, &c, false, kani::any());
    set_clocks(t0 + 1000);
    let _ = check_ts_tcp(&mut table, &c, true, kani::any());
    set_clocks(t0 + 1500);
    let _ = check_ts_tcp(&mut table, &c, false, kani::any());
    assert!(table.model_len() == 2, "C11 two entries for the two directions of one connection");
    core::mem::forget(table);
}
