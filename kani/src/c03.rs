//! C03 — TCP handshake packets are rendered into the p0f signature their headers define.
//! (also serves C01: totality of the TCP header walk, and C13: the window abstraction)
//!
//! Scalar extractors over all inputs; `visit_tcp` (private) through the public
//! `process_tcp_ipv4/ipv6` in the shapes that finish: flag shape, IP shape, last-position option
//! shape, MSS+window shape.  `check_ts_tcp` is stubbed to (None, None) in those (C19 decides it).
use huginn_net_db::tcp::{IpVersion, PayloadSize, Quirk, TcpOption, Ttl, WindowSize};
use huginn_net_tcp::ip_options::IpOptions;
use huginn_net_tcp::observable::ObservableUptime;
use huginn_net_tcp::tcp_process::{
    from_client, from_server, is_valid, process_tcp_ipv4, process_tcp_ipv6, ObservableTCPPackage,
};
use huginn_net_tcp::ttl::{calculate_ttl, guess_distance};
use huginn_net_tcp::uptime::{Connection, ConnectionKey, TcpTimestamp};
use huginn_net_tcp::window_size::detect_win_multiplicator;
use pnet::packet::ipv4::Ipv4Packet;
use pnet::packet::ipv6::Ipv6Packet;
use ttl_cache::TtlCache;

pub fn stub_check_ts(
    _t: &mut TtlCache<ConnectionKey, TcpTimestamp>,
    _c: &Connection,
    _from_client: bool,
    _ts_val: u32,
) -> (Option<ObservableUptime>, Option<ObservableUptime>) {
    (None, None)
}

// ------------------------------------------------------------------ scalar extractors
#[kani::proof]
pub fn c03_ttl_all() {
    let t: u8 = kani::any();
    let got = calculate_ttl(t);
    // p0f: initial TTL is the next of 32, 64, 128, 255 at or above the observed one
    let initial: u16 = if t > 128 { 255 } else if t > 64 { 128 } else if t > 32 { 64 } else { 32 };
    let dist = initial - t as u16;
    assert!(guess_distance(t) as u16 == dist, "C03 distance estimate == next standard initial TTL - observed");
    if t == 0 {
        assert!(got == Ttl::Bad(0), "C03 TTL 0 is bad");
    } else if dist <= 30 {
        assert!(got == Ttl::Distance(t, dist as u8), "C03 ittl == observed + distance (<= 30 hops)");
    } else {
        assert!(got == Ttl::Value(t), "C03 implausible distance: raw TTL");
    }
}

/// window abstraction: every (window, mss) for a concrete (header argument, has_ts, version)
/// (all five symbolic: > 10 min)
fn window_all(hdr: u16, ts: bool, v6: bool, fixed_mss: Option<u16>) {
    let w: u16 = kani::any();
    let mss: u16 = match fixed_mss {
        Some(m) => m,
        None => kani::any(),
    };
    let ver = if v6 { IpVersion::V6 } else { IpVersion::V4 };
    let got = detect_win_multiplicator(w, mss, hdr, ts, &ver);
    let min_hdr: u16 = if v6 { 60 } else { 40 };
    kani::cover!(matches!(got, WindowSize::Mtu(_)) || mss < 100, "mtu multiple");
    kani::cover!(matches!(got, WindowSize::Mod(_)) || mss < 100, "modulus");
    // soundness of every answer
    match got {
        WindowSize::Mss(n) => {
            let n = n as u32;
            let a = n * mss as u32 == w as u32;
            let b = ts && mss > 12 && n * (mss as u32 - 12) == w as u32;
            assert!(w != 0 && mss >= 100 && (a || b), "C03 mss*n: window is n times the MSS (or the timestamp-adjusted MSS)");
        }
        WindowSize::Mod(m) => {
            assert!(m == 256 || m == 512 || m == 1024 || m == 2048 || m == 4096, "C03 %n: power-of-two modulus 256..4096");
            assert!(w != 0 && w % m == 0, "C03 %n: window is a multiple of n");
            assert!(m == 4096 || w % (m * 2) != 0, "C03 %n: the largest such modulus");
        }
        WindowSize::Mtu(n) => {
            let n = n as u32;
            let w = w as u32;
            let cands = [
                1500u32,
                1500 - min_hdr as u32,
                1500 - min_hdr as u32 - 12,
                (mss as u32 + hdr as u32).min(65_535),
                (mss as u32 + min_hdr as u32).min(65_535),
            ];
            let mut ok = false;
            let mut i = 0;
            while i < 5 {
                if n * cands[i] == w {
                    ok = true;
                }
                i += 1;
            }
            assert!(w != 0 && n > 0 && ok, "C03 mtu*n: window is n times an MTU-derived size");
        }
        WindowSize::Value(v) => assert!(v == w, "C03 raw window value"),
        WindowSize::Any => assert!(false, "C03 an observation is never a wildcard"),
    }
    // completeness, in rule order: MSS multiple first
    if w != 0 && mss >= 100 && w % mss == 0 && w / mss <= 255 {
        assert!(got == WindowSize::Mss((w / mss) as u8), "C03 a multiple of the MSS is rendered mss*n");
    }
    // then the modulus
    let mss_mult = w != 0 && mss >= 100 && ((w % mss == 0 && w / mss <= 255) || (ts && mss > 12 && w % (mss - 12) == 0 && w / (mss - 12) <= 255));
    if w != 0 && mss >= 100 && !mss_mult && w % 256 == 0 {
        assert!(matches!(got, WindowSize::Mod(_)), "C03 a multiple of 256 (not of the MSS) is rendered %n");
    }
    if w == 0 || mss < 100 {
        assert!(got == WindowSize::Value(w), "C03 no window / implausible MSS: raw value");
    }
}

macro_rules! window_harness {
    ($name:ident, $hdr:expr, $ts:expr, $v6:expr) => {
        #[kani::proof]
        pub fn $name() {
            window_all($hdr, $ts, $v6, None)
        }
    };
}
/// every window for a concrete MSS (modulo/division by constants: seconds instead of 15+ min)
macro_rules! window_mss_harness {
    ($name:ident, $mss:expr, $hdr:expr, $ts:expr, $v6:expr) => {
        #[kani::proof]
        pub fn $name() {
            window_all($hdr, $ts, $v6, Some($mss))
        }
    };
}
window_mss_harness!(c03_window_mss1460_v4, 1460, 40, false, false);
window_mss_harness!(c03_window_mss1460_v4_ts, 1460, 40, true, false);
window_mss_harness!(c03_window_mss1440_v6, 1440, 60, false, true);
window_mss_harness!(c03_window_mss1220_v6_ts, 1220, 60, true, true);
window_mss_harness!(c03_window_mss1024_v4, 1024, 40, false, false);
window_mss_harness!(c03_window_mss536_v4, 536, 48, false, false);
window_mss_harness!(c03_window_mss100_v4_ts, 100, 40, true, false);
window_mss_harness!(c03_window_mss99_v4, 99, 40, false, false);
window_mss_harness!(c03_window_mss65535_v4, 65535, 40, false, false);
window_mss_harness!(c03_window_mss8961_v6_ts, 8961, 60, true, true);

// header argument as the analyzer passes it: IP header + minimal TCP header in bytes
window_harness!(c03_window_v4_h40, 40, false, false);
window_harness!(c03_window_v4_h40_ts, 40, true, false);
window_harness!(c03_window_v6_h60, 60, false, true);
window_harness!(c03_window_v6_h60_ts, 60, true, true);
window_harness!(c03_window_v4_h0, 0, false, false);

#[kani::proof]
pub fn c03_role_predicates() {
    let flags: u8 = kani::any();
    let syn = flags & 0x02 != 0;
    let ack = flags & 0x10 != 0;
    let fin = flags & 0x01 != 0;
    let rst = flags & 0x04 != 0;
    assert!(from_client(flags) == (syn && !ack), "C03 client role == SYN without ACK");
    assert!(from_server(flags) == (syn && ack), "C03 server role == SYN+ACK");
    let tcp_type = flags & (0x02 | 0x10 | 0x01 | 0x04);
    let invalid = (syn && (fin || rst)) || (fin && rst) || tcp_type == 0;
    assert!(is_valid(flags, tcp_type) == !invalid, "C03 invalid flag combinations: SYN with FIN/RST, FIN+RST, none of SYN/ACK/FIN/RST");
}

#[kani::proof]
#[kani::unwind(4)]
pub fn c03_ipv4_olen() {
    let mut buf = [0u8; 60];
    let ihl: u8 = kani::any();
    kani::assume(ihl < 16);
    buf[0] = 0x40 | ihl;
    let p = Ipv4Packet::new(&buf).unwrap();
    let got = IpOptions::calculate_ipv4_length(&p);
    assert!(got == if ihl > 5 { (ihl - 5) * 4 } else { 0 }, "C03 olen == IPv4 option bytes");
}

// ------------------------------------------------------------------ frame builders
pub const TCP_OFF4: usize = 20;

/// IPv4 header (IHL 5) + TCP header with `OPT` option bytes, no payload; concrete skeleton
pub fn ipv4_syn<const N: usize>(opt_len: usize) -> [u8; N] {
    let mut p = [0u8; N];
    p[0] = 0x45;
    p[2] = (N >> 8) as u8;
    p[3] = N as u8;
    p[4] = 0x12; // id
    p[5] = 0x34;
    p[6] = 0x40; // DF
    p[8] = 64; // ttl
    p[9] = 6; // TCP
    p[12] = 10;
    p[15] = 1;
    p[16] = 10;
    p[19] = 2;
    let t = TCP_OFF4;
    p[t] = 0x9c; // sport 40000
    p[t + 1] = 0x40;
    p[t + 2] = 0x00; // dport 80
    p[t + 3] = 0x50;
    p[t + 4] = 0x01; // seq
    p[t + 7] = 0x01;
    p[t + 12] = (((20 + opt_len) / 4) as u8) << 4;
    p[t + 13] = 0x02; // SYN
    p[t + 14] = 0x20; // window 8192
    p
}

fn run4(buf: &[u8]) -> Result<ObservableTCPPackage, huginn_net_tcp::error::HuginnNetTcpError> {
    // the timestamp tracker is decided in C19; here it is switched off through the verif hook
    // (same in the native replay)
    huginn_net_tcp::uptime::verif_hooks::set_tracker_override(Some(stub_check_ts));
    let mut table: TtlCache<ConnectionKey, TcpTimestamp> = TtlCache::new(4);
    let ip = Ipv4Packet::new(buf).unwrap();
    let r = process_tcp_ipv4(&ip, &mut table);
    core::mem::forget(table);
    r
}

// ------------------------------------------------------------------ (a) flag shape
/// symbolic TCP flag byte and zero/non-zero seq, ack, urgent pointer; no options
#[kani::proof]
#[kani::stub(alloc::fmt::format, crate::util::stub_format)]
#[kani::unwind(12)]
pub fn c03_flag_shape() {
    let mut p = ipv4_syn::<40>(0);
    let flags: u8 = kani::any();
    let seq_zero: bool = kani::any();
    let ack_zero: bool = kani::any();
    let urg_zero: bool = kani::any();
    let t = TCP_OFF4;
    p[t + 13] = flags;
    if seq_zero {
        p[t + 4] = 0;
        p[t + 7] = 0;
    }
    if !ack_zero {
        p[t + 9] = 0x77;
    }
    if !urg_zero {
        p[t + 19] = 0x05;
    }
    let r = run4(&p);
    let syn = flags & 0x02 != 0;
    let ack = flags & 0x10 != 0;
    let fin = flags & 0x01 != 0;
    let rst = flags & 0x04 != 0;
    let urg = flags & 0x20 != 0;
    let psh = flags & 0x08 != 0;
    let ecn = flags & 0xc0 != 0;
    let invalid = (syn && (fin || rst)) || (fin && rst) || !(syn || ack || fin || rst);
    kani::cover!(r.is_ok() && syn && ack, "SYN+ACK");
    kani::cover!(r.is_ok() && !syn, "non-handshake segment");
    match r {
        Err(_) => assert!(invalid, "C03 only invalid flag combinations are refused"),
        Ok(o) => {
            assert!(!invalid, "C03 invalid flag combinations are refused");
            assert!(o.tcp_request.is_some() == (syn && !ack), "C03 a SYN yields a client signature");
            // (that segments outside a handshake yield neither is asserted on its own in
            // c03_flag_non_handshake: known finding D4)
            if syn {
                assert!(o.tcp_response.is_some() == ack, "C03 a SYN+ACK yields a server signature, a SYN does not");
            }
            assert!(o.mtu.is_none(), "C03 no MSS option, no MTU");
            let sig = if let Some(s) = &o.tcp_request { Some(s) } else { o.tcp_response.as_ref() };
            if let Some(s) = sig {
                let m = &s.matching;
                // quirks in the order p0f lists them: IP quirks first (df, id+ from the skeleton), then TCP
                let mut want: [Option<Quirk>; 8] = [None, None, None, None, None, None, None, None];
                let mut n = 0;
                want[n] = Some(Quirk::Df);
                n += 1;
                want[n] = Some(Quirk::NonZeroID);
                n += 1;
                if ecn {
                    want[n] = Some(Quirk::Ecn);
                    n += 1;
                }
                if seq_zero {
                    want[n] = Some(Quirk::SeqNumZero);
                    n += 1;
                }
                if ack {
                    if ack_zero {
                        want[n] = Some(Quirk::AckNumZero);
                        n += 1;
                    }
                } else if !ack_zero && !rst {
                    want[n] = Some(Quirk::AckNumNonZero);
                    n += 1;
                }
                if urg {
                    want[n] = Some(Quirk::Urg);
                    n += 1;
                } else if !urg_zero {
                    want[n] = Some(Quirk::NonZeroURG);
                    n += 1;
                }
                if psh {
                    want[n] = Some(Quirk::Push);
                    n += 1;
                }
                assert!(m.quirks.len() == n, "C03 exactly the quirks whose header condition holds");
                let mut i = 0;
                while i < 8 {
                    if i < n {
                        assert!(Some(&m.quirks[i]) == want[i].as_ref(), "C03 exactly the quirks whose header condition holds");
                    }
                    i += 1;
                }
                assert!(m.olayout.is_empty() && m.mss.is_none() && m.wscale.is_none(), "C03 no options: empty layout");
                assert!(m.pclass == PayloadSize::Zero, "C03 no payload: class 0");
                assert!(m.version == IpVersion::V4 && m.olen == 0, "C03 version and IP option length");
                assert!(m.ittl == Ttl::Distance(64, 0), "C03 ittl from TTL 64");
            }
            core::mem::forget(o);
        }
    }
}

/// segments that are not part of a handshake yield neither signature (known finding D4)
#[kani::proof]
#[kani::stub(alloc::fmt::format, crate::util::stub_format)]
#[kani::unwind(12)]
pub fn c03_flag_non_handshake() {
    let mut p = ipv4_syn::<40>(0);
    let flags: u8 = kani::any();
    kani::assume(flags & 0x02 == 0); // no SYN
    p[TCP_OFF4 + 13] = flags;
    if let Ok(o) = run4(&p) {
        assert!(o.tcp_request.is_none(), "C03 a segment without SYN yields no client signature");
        assert!(o.tcp_response.is_none(), "C03 a segment without SYN yields no server signature");
        core::mem::forget(o);
    }
}

// ------------------------------------------------------------------ (b) IP shape
#[kani::proof]
#[kani::stub(alloc::fmt::format, crate::util::stub_format)]
#[kani::unwind(12)]
pub fn c03_ipv4_shape() {
    let mut p = ipv4_syn::<40>(0);
    let tos: u8 = kani::any();
    let fl: u8 = kani::any(); // flags (3 bits) + top of fragment offset
    let id_zero: bool = kani::any();
    let ttl: u8 = kani::any();
    p[1] = tos;
    p[6] = fl & 0xe0; // fragment offset kept zero
    if id_zero {
        p[4] = 0;
        p[5] = 0;
    }
    p[8] = ttl;
    let r = run4(&p);
    let mf = fl & 0x20 != 0;
    let df = fl & 0x40 != 0;
    let mbz = fl & 0x80 != 0;
    kani::cover!(r.is_ok() && mbz, "must-be-zero bit set");
    match r {
        Err(_) => assert!(mf, "C03 only fragments are refused"),
        Ok(o) => {
            assert!(!mf, "C03 fragments are refused");
            let s = o.tcp_request.as_ref().unwrap();
            let m = &s.matching;
            let mut want: [Option<Quirk>; 4] = [None, None, None, None];
            let mut n = 0;
            if tos & 0x03 != 0 {
                want[n] = Some(Quirk::Ecn);
                n += 1;
            }
            if mbz {
                want[n] = Some(Quirk::MustBeZero);
                n += 1;
            }
            if df {
                want[n] = Some(Quirk::Df);
                n += 1;
                if !id_zero {
                    want[n] = Some(Quirk::NonZeroID);
                    n += 1;
                }
            } else if id_zero {
                want[n] = Some(Quirk::ZeroID);
                n += 1;
            }
            assert!(m.quirks.len() == n, "C03 exactly the IP quirks whose header condition holds");
            let mut i = 0;
            while i < 4 {
                if i < n {
                    assert!(Some(&m.quirks[i]) == want[i].as_ref(), "C03 exactly the IP quirks whose header condition holds");
                }
                i += 1;
            }
            assert!(m.ittl == calculate_ttl(ttl), "C03 ittl from the TTL field");
            core::mem::forget(o);
        }
    }
}

#[kani::proof]
#[kani::stub(alloc::fmt::format, crate::util::stub_format)]
#[kani::unwind(12)]
pub fn c03_ipv6_shape() {
    let mut p = [0u8; 60];
    let tc: u8 = kani::any();
    let flow: [u8; 3] = kani::any();
    let hop: u8 = kani::any();
    p[0] = 0x60 | (tc >> 4);
    p[1] = (tc << 4) | (flow[0] & 0x0f);
    p[2] = flow[1];
    p[3] = flow[2];
    p[5] = 20; // payload length
    p[6] = 6; // TCP
    p[7] = hop;
    p[23] = 1;
    p[39] = 2;
    let t = 40;
    p[t] = 0x9c;
    p[t + 1] = 0x40;
    p[t + 3] = 0x50;
    p[t + 7] = 0x01;
    p[t + 12] = 0x50;
    p[t + 13] = 0x02;
    p[t + 14] = 0x20;
    huginn_net_tcp::uptime::verif_hooks::set_tracker_override(Some(stub_check_ts));
    let mut table: TtlCache<ConnectionKey, TcpTimestamp> = TtlCache::new(4);
    let ip = Ipv6Packet::new(&p).unwrap();
    let r = process_tcp_ipv6(&ip, &mut table);
    core::mem::forget(table);
    let flow_nz = (flow[0] & 0x0f) != 0 || flow[1] != 0 || flow[2] != 0;
    match r {
        Err(_) => assert!(false, "C03 a plain IPv6 SYN is analysed"),
        Ok(o) => {
            let s = o.tcp_request.as_ref().unwrap();
            let m = &s.matching;
            let mut n = 0;
            if flow_nz {
                assert!(m.quirks.len() > n && m.quirks[n] == Quirk::FlowID, "C03 flow: non-zero IPv6 flow label");
                n += 1;
            }
            if tc & 0x03 != 0 {
                assert!(m.quirks.len() > n && m.quirks[n] == Quirk::Ecn, "C03 ecn from the traffic class");
                n += 1;
            }
            assert!(m.quirks.len() == n, "C03 exactly the IPv6 quirks whose header condition holds");
            assert!(m.version == IpVersion::V6 && m.olen == 0, "C03 version 6, no extension headers");
            assert!(m.ittl == calculate_ttl(hop), "C03 ittl from the hop limit");
            core::mem::forget(o);
        }
    }
}

// ------------------------------------------------------------------ (c) last-position option shape
/// `AREA` option bytes: NOPs, then one option of kind `KIND` in last position with symbolic length
/// byte and symbolic data bytes as far as they fit (`ROOM` = bytes from the kind byte to the end)
fn option_last<const N: usize>(area: usize, kind: u8, room: usize, flags: u8, fixed_len: Option<u8>) {
    let mut p = ipv4_syn::<N>(area);
    let t = TCP_OFF4;
    p[t + 13] = flags;
    let start = t + 20;
    let mut i = 0;
    while i < area - room {
        p[start + i] = 1; // NOP
        i += 1;
    }
    let o = start + area - room;
    p[o] = kind;
    let mut sym: [u8; 11] = kani::any();
    if let Some(l) = fixed_len {
        // (a symbolic length byte drives pnet's option framing and slicing: > 15 min; the
        // length byte is enumerated instead, the data bytes stay symbolic)
        sym[0] = l;
    }
    let mut j = 1;
    while j < room {
        p[o + j] = sym[j - 1];
        j += 1;
    }
    let len_byte = if room > 1 { sym[0] } else { 0 };
    let r = run4(&p);
    kani::cover!(r.is_ok(), "analysed");
    if let Ok(ob) = r {
        let sig = if let Some(s) = &ob.tcp_request { Some(s) } else { ob.tcp_response.as_ref() };
        if let Some(s) = sig {
            let m = &s.matching;
            let nops = area - room;
            // the NOPs before it are listed in wire order
            assert!(m.olayout.len() >= nops, "C03 option kinds in wire order");
            let mut k = 0;
            while k < nops {
                assert!(m.olayout[k] == TcpOption::Nop, "C03 option kinds in wire order");
                k += 1;
            }
            // the option under test, when pnet can frame it (kind 0/1 need no length byte)
            if kind == 0 {
                assert!(m.olayout.len() == nops + 1 && m.olayout[nops] == TcpOption::Eol((room - 1) as u8),
                    "C03 eol+n: n = bytes after the end-of-options marker");
                let mut nz = false;
                let mut q = 1;
                while q < room {
                    if sym[q - 1] != 0 {
                        nz = true;
                    }
                    q += 1;
                }
                assert!(m.quirks.contains(&Quirk::TrailinigNonZero) == nz, "C03 opt+: non-zero data after the end of options");
            }
            if kind == 2 && room >= 4 && len_byte == 4 {
                assert!(m.olayout.len() > nops && m.olayout[nops] == TcpOption::Mss, "C03 mss option listed");
                assert!(m.mss == Some(((sym[1] as u16) << 8) | sym[2] as u16), "C03 mss value big-endian");
            }
            if kind == 3 && room >= 3 && len_byte == 3 {
                assert!(m.olayout.len() > nops && m.olayout[nops] == TcpOption::Ws, "C03 ws option listed");
                assert!(m.wscale == Some(sym[1]), "C03 window scale value");
                assert!(m.quirks.contains(&Quirk::ExcessiveWindowScaling) == (sym[1] > 14), "C03 exws iff scale > 14");
            }
            if kind == 4 && room >= 2 && len_byte == 2 {
                assert!(m.olayout.len() > nops && m.olayout[nops] == TcpOption::Sok, "C03 sok option listed");
            }
            if kind == 8 && room >= 10 && len_byte == 10 {
                assert!(m.olayout.len() > nops && m.olayout[nops] == TcpOption::TS, "C03 ts option listed");
                let tsval_zero = sym[1] == 0 && sym[2] == 0 && sym[3] == 0 && sym[4] == 0;
                let tsecr_nz = sym[5] != 0 || sym[6] != 0 || sym[7] != 0 || sym[8] != 0;
                assert!(m.quirks.contains(&Quirk::OwnTimestampZero) == tsval_zero, "C03 ts1-: own timestamp zero");
                let pure_syn = flags & 0x17 == 0x02;
                assert!(m.quirks.contains(&Quirk::PeerTimestampNonZero) == (tsecr_nz && pure_syn), "C03 ts2+: peer timestamp non-zero on the initial SYN");
            }
            if kind == 0x42 && room >= 2 && len_byte as usize == room {
                assert!(m.olayout.len() > nops && m.olayout[nops] == TcpOption::Unknown(0x42), "C03 ?n: unknown option kind");
            }
        }
        core::mem::forget(ob);
    }
}

macro_rules! opt_harness {
    ($name:ident, $n:expr, $area:expr, $kind:expr, $room:expr, $flags:expr, $len:expr) => {
        #[kani::proof]
        #[kani::stub(alloc::fmt::format, crate::util::stub_format)]
                #[kani::unwind(16)]
        pub fn $name() {
            option_last::<$n>($area, $kind, $room, $flags, $len)
        }
    };
}
// N = 40 + area; kinds: 0 EOL, 1 NOP, 2 MSS, 3 WS, 4 SOK, 5 SACK, 8 TS, 0x42 unknown;
// last argument: the option's length byte (None = symbolic)
opt_harness!(c03_opt_mss_4, 44, 4, 2, 4, 0x02, Some(4));
opt_harness!(c03_opt_mss_8_short, 48, 8, 2, 3, 0x02, Some(4));
opt_harness!(c03_opt_ws_4, 44, 4, 3, 3, 0x02, Some(3));
opt_harness!(c03_opt_ws_4_last_byte, 44, 4, 3, 2, 0x02, Some(2));
opt_harness!(c03_opt_ws_4_last_byte_len3, 44, 4, 3, 2, 0x02, Some(3));
opt_harness!(c03_opt_ws_4_kind_only, 44, 4, 3, 1, 0x02, None);
opt_harness!(c03_opt_sok_4, 44, 4, 4, 2, 0x02, Some(2));
opt_harness!(c03_opt_sack_12, 52, 12, 5, 10, 0x12, Some(10));
opt_harness!(c03_opt_ts_12_syn, 52, 12, 8, 10, 0x02, Some(10));
opt_harness!(c03_opt_ts_12_synack, 52, 12, 8, 10, 0x12, Some(10));
opt_harness!(c03_opt_ts_8_short, 48, 8, 8, 7, 0x02, Some(10));
opt_harness!(c03_opt_unknown_8, 48, 8, 0x42, 6, 0x02, Some(6));

// ------------------------------------------------------------------ (d) MSS + window shape
/// SYN with an MSS option (symbolic value) and a symbolic window: the rendered window and the MTU
#[kani::proof]
#[kani::stub(alloc::fmt::format, crate::util::stub_format)]
#[kani::unwind(16)]
pub fn c03_mss_window_shape() {
    let mut p = ipv4_syn::<44>(4);
    let t = TCP_OFF4;
    let mss: u16 = kani::any();
    let w: u16 = kani::any();
    p[t + 14] = (w >> 8) as u8;
    p[t + 15] = w as u8;
    p[t + 20] = 2;
    p[t + 21] = 4;
    p[t + 22] = (mss >> 8) as u8;
    p[t + 23] = mss as u8;
    let r = run4(&p);
    match r {
        Err(_) => assert!(false, "C03 a plain SYN with MSS is analysed"),
        Ok(o) => {
            let s = o.tcp_request.as_ref().unwrap();
            let m = &s.matching;
            assert!(m.mss == Some(mss), "C03 mss value");
            // p0f: mtu*n means n times (MSS + minimal IP and TCP headers) = MSS + 40 for IPv4
            let mss_mult = w != 0 && mss >= 100 && w % mss == 0 && w / mss <= 255;
            let modn = w != 0 && w % 256 == 0;
            let mtu = mss as u32 + 40;
            let is_other_mtu = w as u32 % 1500 == 0 || w as u32 % 1460 == 0;
            if w != 0 && mss >= 100 && !mss_mult && !modn && !is_other_mtu && w as u32 % mtu == 0 && w as u32 / mtu <= 255 {
                kani::cover!(true, "window is a multiple of MSS+40");
                assert!(m.wsize == WindowSize::Mtu((w as u32 / mtu) as u8), "C03 window that is n times MSS+40 is rendered mtu*n");
            }
            // (the MTU value is asserted in c03_mtu_*: known finding D3)
            assert!(o.mtu.is_some(), "C03 a SYN with MSS yields the link MTU");
            core::mem::forget(o);
        }
    }
}

/// link MTU implied by the MSS = MSS + minimal IP and TCP headers (40 for IPv4), whatever the
/// number of TCP option bytes the SYN carries (MSS option + NOP padding up to `AREA` bytes)
fn mtu_value<const N: usize>(area: usize) {
    let mut p = ipv4_syn::<N>(area);
    let t = TCP_OFF4;
    let mss: u16 = kani::any();
    kani::assume(mss <= 60_000);
    p[t + 20] = 2;
    p[t + 21] = 4;
    p[t + 22] = (mss >> 8) as u8;
    p[t + 23] = mss as u8;
    let mut i = 24;
    while i < 20 + area {
        p[t + i] = 1; // NOPs
        i += 1;
    }
    match run4(&p) {
        Err(_) => assert!(false, "C03 a plain SYN with MSS is analysed"),
        Ok(o) => {
            match &o.mtu {
                Some(x) => assert!(x.value == mss + 40, "C03 link MTU == MSS + 20 + 20 whatever the option bytes"),
                None => assert!(false, "C03 a SYN with MSS yields the link MTU"),
            }
            core::mem::forget(o);
        }
    }
}

macro_rules! mtu_harness {
    ($name:ident, $n:expr, $area:expr) => {
        #[kani::proof]
        #[kani::stub(alloc::fmt::format, crate::util::stub_format)]
                #[kani::unwind(24)]
        pub fn $name() {
            mtu_value::<$n>($area)
        }
    };
}
mtu_harness!(c03_mtu_opt4, 44, 4);
mtu_harness!(c03_mtu_opt12, 52, 12);
mtu_harness!(c03_mtu_opt20, 60, 20);

/// end-of-options marker followed by `PAD` zero bytes: layout ends with eol+PAD (known finding D24:
/// the walk continues into the padding and appends further eol entries)
fn eol_padding<const N: usize>(area: usize, pad: usize) {
    let mut p = ipv4_syn::<N>(area);
    let start = TCP_OFF4 + 20;
    let mut i = 0;
    while i < area - pad - 1 {
        p[start + i] = 1; // NOP
        i += 1;
    }
    // p[start + area - pad - 1] = 0 (EOL) and the padding are already zero
    match run4(&p) {
        Err(_) => assert!(false, "C03 a SYN with end-of-options is analysed"),
        Ok(o) => {
            let s = o.tcp_request.as_ref().unwrap();
            let m = &s.matching;
            let nops = area - pad - 1;
            assert!(m.olayout.len() > nops && m.olayout[nops] == TcpOption::Eol(pad as u8), "C03 eol+n: n = bytes after the end-of-options marker");
            assert!(m.olayout.len() == nops + 1, "C03 option layout ends at the end-of-options marker");
            assert!(!m.quirks.contains(&Quirk::TrailinigNonZero), "C03 zero padding is not opt+");
            core::mem::forget(o);
        }
    }
}

macro_rules! eol_harness {
    ($name:ident, $n:expr, $area:expr, $pad:expr) => {
        #[kani::proof]
        #[kani::stub(alloc::fmt::format, crate::util::stub_format)]
                #[kani::unwind(16)]
        pub fn $name() {
            eol_padding::<$n>($area, $pad)
        }
    };
}
eol_harness!(c03_eol_pad0, 44, 4, 0);
eol_harness!(c03_eol_pad1, 44, 4, 1);
eol_harness!(c03_eol_pad2, 48, 8, 2);

/// IPv6 extension-header length (olen) on every 48-byte packet: 0 when TCP follows directly,
/// 8 for a fragment header, (hdr_ext_len + 1) * 8 otherwise (as far as it fits the u8 field)
#[kani::proof]
#[kani::unwind(4)]
pub fn c03_ipv6_olen() {
    let mut buf: [u8; 48] = kani::any();
    buf[0] = 0x60 | (buf[0] & 0x0f);
    let p = Ipv6Packet::new(&buf).unwrap();
    let got = IpOptions::calculate_ipv6_length(&p);
    let next = buf[6];
    let plen = ((buf[4] as usize) << 8) | buf[5] as usize; // payload length field
    kani::cover!(next == 44, "fragment header");
    if next == 6 {
        assert!(got == 0, "C03 olen 0 when TCP follows the IPv6 header");
    } else if plen >= 8 && next == 44 {
        assert!(got == 8, "C03 olen 8 for a fragment extension header");
    } else if plen >= 8 {
        let want = (buf[41] as usize + 1) * 8;
        if want <= 255 {
            assert!(got as usize == want, "C03 olen == (hdr ext len + 1) * 8 for other extension headers");
        }
    }
}
