//! C01 — totality of the byte-level entry layers: for every buffer up to the bound the call
//! returns (no panic, no arithmetic overflow, loops finish within the unwinding bound).
//! The TCP header walk is covered by the c03 shapes, the TLS reader by c08, the dispatch hashes by
//! c18::*::c18_valid_index_64, the filters by c15 (apply on every frame) — listed under C01 in
//! the registry.  Here: the remaining entry points.
use huginn_net_http::http2_parser::Http2Parser;

macro_rules! c01_parser_for_crate {
    ($m:ident, $krate:ident) => {
        pub mod $m {
            use $krate::packet_parser::{detect_datalink_format, parse_packet, IpPacket};
            #[kani::proof]
            #[kani::unwind(4)]
            pub fn c01_parse_packet_64() {
                let buf: [u8; 64] = kani::any();
                let len: usize = kani::any();
                kani::assume(len <= 64);
                let r = parse_packet(&buf[..len]);
                kani::cover!(matches!(r, IpPacket::None), "not an IP frame");
                let d = detect_datalink_format(&buf[..len]);
                kani::cover!(d.is_some(), "format detected");
                core::mem::forget(r);
            }
        }
    };
}
c01_parser_for_crate!(tcp, huginn_net_tcp);
c01_parser_for_crate!(http, huginn_net_http);
c01_parser_for_crate!(tls, huginn_net_tls);

pub mod unified {
    use huginn_net::packet_parser::{detect_datalink_format, parse_packet, IpPacket};
    #[kani::proof]
    #[kani::unwind(4)]
    pub fn c01_parse_packet_64() {
        let buf: [u8; 64] = kani::any();
        let len: usize = kani::any();
        kani::assume(len <= 64);
        let r = parse_packet(&buf[..len]);
        kani::cover!(matches!(r, IpPacket::None), "not an IP frame");
        let _ = detect_datalink_format(&buf[..len]);
        core::mem::forget(r);
    }
}

/// raw filter with no sub-filter and with a port filter, every frame
macro_rules! c01_filter_for_crate {
    ($m:ident, $krate:ident) => {
        pub mod $m {
            use $krate::filter::{FilterConfig, FilterMode, PortFilter};
            use $krate::raw_filter;
            #[kani::proof]
            #[kani::unwind(20)]
            pub fn c01_raw_filter_64() {
                let buf: [u8; 64] = kani::any();
                let len: usize = kani::any();
                kani::assume(len <= 64);
                let none = FilterConfig::new();
                assert!(raw_filter::apply(&buf[..len], &none), "C01/C14 no sub-filter: everything passes");
                let deny = FilterConfig::new().mode(FilterMode::Deny).with_port_filter(PortFilter::new().destination(kani::any()));
                let _ = raw_filter::apply(&buf[..len], &deny);
                core::mem::forget(none);
                core::mem::forget(deny);
            }
        }
    };
}
c01_filter_for_crate!(filter_tcp, huginn_net_tcp);
c01_filter_for_crate!(filter_http, huginn_net_http);
c01_filter_for_crate!(filter_tls, huginn_net_tls);

#[kani::proof]
#[kani::unwind(70)]
pub fn c01_tcp_hash_source_ip_64() {
    let buf: [u8; 64] = kani::any();
    let len: usize = kani::any();
    kani::assume(len <= 64);
    let _ = huginn_net_tcp::packet_hash::hash_source_ip(&buf[..len]);
}

#[kani::proof]
#[kani::unwind(4)]
pub fn c01_is_tls_traffic_16() {
    let buf: [u8; 16] = kani::any();
    let len: usize = kani::any();
    kani::assume(len <= 16);
    let r = huginn_net_tls::tls_process::is_tls_traffic(&buf[..len]);
    if len < 5 {
        assert!(!r, "C01 fewer than 5 bytes are not a TLS record start");
    }
}

#[kani::proof]
#[kani::unwind(30)]
pub fn c01_http_complete_checks_24() {
    let buf: [u8; 24] = kani::any();
    let len: usize = kani::any();
    kani::assume(len <= 24);
    let d = &buf[..len];
    let a = huginn_net_http::http1_process::has_complete_headers(d);
    let b = huginn_net_http::http2_process::has_complete_data(d);
    let c = huginn_net_http::http2_process::looks_like_http2_response(d);
    if len < 4 {
        assert!(!a, "C01 fewer than 4 bytes cannot hold the header terminator");
    }
    if len < 9 {
        assert!(!b && !c, "C01 fewer than 9 bytes are not an HTTP/2 frame");
    }
}

/// HTTP/2 frame splitter on every buffer of `N` bytes
fn parse_frames<const N: usize>() {
    let buf: [u8; N] = kani::any();
    let len: usize = kani::any();
    kani::assume(len <= N);
    let parser = Http2Parser::new();
    let r = parser.parse_frames(&buf[..len]);
    if let Ok(frames) = &r {
        // frames never claim more bytes than were given
        let mut total = 0usize;
        let mut i = 0;
        while i < frames.len() {
            total += frames[i].total_size();
            i += 1;
        }
        assert!(total <= len, "C01 frames consumed <= bytes given");
        kani::cover!(frames.len() >= 1, "a frame parsed");
    }
    core::mem::forget(r);
    core::mem::forget(parser);
}

#[kani::proof]
#[kani::unwind(4)]
pub fn c01_http2_parse_frames_18() {
    parse_frames::<18>()
}
