//! C13 / D25: a bundled signature written `...:mss*10,0:mss:...` (scale 0, layout without `ws`) must
//! be matched with distance 0 by the SYN+ACK it describes. Real analyzer + real bundled database.
use huginn_net_db::db_matching_trait::FingerprintDb;
use huginn_net_db::Database;
use huginn_net_tcp::tcp_process::process_tcp_ipv4;
use huginn_net_tcp::uptime::{ConnectionKey, TcpTimestamp};
use pnet::packet::ipv4::Ipv4Packet;
use ttl_cache::TtlCache;

#[test]
fn linux3_synack_mss_only_matches_with_full_quality() {
    // response Linux 3.x: *:64:0:*:mss*10,0:mss:df:0
    let mss: u16 = 1460;
    let window: u16 = 14600;
    let mut p = vec![0u8; 44];
    p[0] = 0x45;
    p[3] = 44;
    p[6] = 0x40; // DF, id = 0
    p[8] = 64;
    p[9] = 6;
    p[12..16].copy_from_slice(&[10, 0, 0, 2]);
    p[16..20].copy_from_slice(&[10, 0, 0, 1]);
    p[20..22].copy_from_slice(&80u16.to_be_bytes());
    p[22..24].copy_from_slice(&40000u16.to_be_bytes());
    p[27] = 1; // seq
    p[31] = 2; // ack
    p[32] = 0x60;
    p[33] = 0x12; // SYN+ACK
    p[34..36].copy_from_slice(&window.to_be_bytes());
    p[40] = 2;
    p[41] = 4;
    p[42..44].copy_from_slice(&mss.to_be_bytes());
    let mut table: TtlCache<ConnectionKey, TcpTimestamp> = TtlCache::new(8);
    let ip = Ipv4Packet::new(&p).unwrap();
    let out = process_tcp_ipv4(&ip, &mut table).unwrap();
    let obs = out.tcp_response.unwrap().matching;
    let db = Database::load_default().unwrap();
    let (label, sig, quality) = db.tcp_response.find_best_match(&obs).expect("some match");
    assert_eq!(label.name, "Linux", "matched {label:?} via {sig}");
    assert_eq!(quality, 1.0, "conforming SYN+ACK must match its own signature with distance 0 (sig {sig})");
}
