//! C01 / D1 + D23: malformed TCP options through the public TCP analyzer entry (real build).
use huginn_net_tcp::tcp_process::process_tcp_ipv4;
use huginn_net_tcp::uptime::{ConnectionKey, TcpTimestamp};
use pnet::packet::ipv4::Ipv4Packet;
use std::sync::mpsc;
use std::time::Duration;
use ttl_cache::TtlCache;

fn syn_with_options(opts: &[u8]) -> Vec<u8> {
    assert!(opts.len() % 4 == 0);
    let total = 40 + opts.len();
    let mut p = vec![0u8; total];
    p[0] = 0x45;
    p[2] = (total >> 8) as u8;
    p[3] = total as u8;
    p[6] = 0x40;
    p[8] = 64;
    p[9] = 6;
    p[12..16].copy_from_slice(&[10, 0, 0, 1]);
    p[16..20].copy_from_slice(&[10, 0, 0, 2]);
    p[20..22].copy_from_slice(&40000u16.to_be_bytes());
    p[22..24].copy_from_slice(&80u16.to_be_bytes());
    p[27] = 1;
    p[32] = (((20 + opts.len()) / 4) as u8) << 4;
    p[33] = 0x02;
    p[34] = 0x20;
    p[40..].copy_from_slice(opts);
    p
}

/// run the analyzer on a thread; None = did not return within 3 s, Some(Err) = panicked
fn analyse(frame: Vec<u8>) -> Option<Result<bool, ()>> {
    let (tx, rx) = mpsc::channel();
    std::thread::spawn(move || {
        let r = std::panic::catch_unwind(|| {
            let mut table: TtlCache<ConnectionKey, TcpTimestamp> = TtlCache::new(8);
            let ip = Ipv4Packet::new(&frame).unwrap();
            process_tcp_ipv4(&ip, &mut table).is_ok()
        });
        let _ = tx.send(r.map_err(|_| ()));
    });
    rx.recv_timeout(Duration::from_secs(3)).ok()
}

#[test]
fn d1_window_scale_option_without_payload_does_not_panic() {
    // NOP NOP WS(kind 3) with length byte 2: no scale byte
    let r = analyse(syn_with_options(&[1, 1, 3, 2]));
    assert!(matches!(r, Some(Ok(_))), "analyzer panicked or hung: {r:?}");
}

#[test]
fn d23_option_with_length_byte_zero_terminates() {
    // MSS option whose length byte is 0
    let r = analyse(syn_with_options(&[2, 0, 5, 180]));
    assert!(matches!(r, Some(Ok(_))), "analyzer panicked or hung: {r:?}");
}
