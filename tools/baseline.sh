#!/bin/bash
# Runs the repository's own test-suite (guard off) and compares with BASELINE.json:
# 464 stable tests must pass; huginn-net-tls golden_tests::test_golden_pcap_snapshots is the one
# test that always fails offline in the baseline.
cd /repo
out=$(CARGO_NET_OFFLINE=true cargo test --workspace --no-fail-fast --offline 2>&1)
passed=$(echo "$out" | grep "^test result" | sed -E 's/.* ([0-9]+) passed.*/\1/' | paste -sd+ | bc)
failed=$(echo "$out" | grep "^test result" | sed -E 's/.* ([0-9]+) failed.*/\1/' | paste -sd+ | bc)
echo "$out" | grep -E "^test .* FAILED" 
echo "passed=$passed failed=$failed"
bad=$(echo "$out" | grep -E "^test .* FAILED" | grep -v "^test result" | grep -v "test_golden_pcap_snapshots" | wc -l)
# doc-tests are part of cargo test but not of the nextest baseline; they are counted in passed
if [ "$bad" -eq 0 ] && [ "$passed" -ge 464 ]; then echo BASELINE-OK; exit 0; else echo BASELINE-MISMATCH; exit 1; fi
