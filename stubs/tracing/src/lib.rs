//! E1 environment model of `tracing` for Kani: "no subscriber installed".
//! With no subscriber the real macros short-circuit on the callsite interest check and never
//! evaluate their arguments; this stub makes that the only behaviour.  The repo uses only the
//! five level macros (debug!, error!, warn!, trace!, info!).
#[macro_export]
macro_rules! debug { ($($t:tt)*) => {{}}; }
#[macro_export]
macro_rules! error { ($($t:tt)*) => {{}}; }
#[macro_export]
macro_rules! warn { ($($t:tt)*) => {{}}; }
#[macro_export]
macro_rules! trace { ($($t:tt)*) => {{}}; }
#[macro_export]
macro_rules! info { ($($t:tt)*) => {{}}; }
