//! C12 — match distances obey signature semantics: exact, wildcard, decisive, monotone.
use huginn_net_db::db_matching_trait::{DatabaseSignature, MatchQuality};
use huginn_net_db::http::{self, Header, HttpMatchQuality, Version};
use huginn_net_db::observable_http_signals_matching::HttpDistance;
use huginn_net_db::observable_signals::{
    HttpRequestObservation, HttpResponseObservation, TcpObservation,
};
use huginn_net_db::tcp::{
    self, IpVersion, PayloadSize, Quirk, TcpMatchQuality, TcpOption, Ttl, WindowSize,
};
use huginn_net_tcp::ttl::calculate_ttl;

// ------------------------------------------------------------------ symbolic values of the types
pub fn any_ttl() -> Ttl {
    match kani::any::<u8>() & 3 {
        0 => Ttl::Value(kani::any()),
        1 => Ttl::Distance(kani::any(), kani::any()),
        2 => Ttl::Guess(kani::any()),
        _ => Ttl::Bad(kani::any()),
    }
}
pub fn any_wsize() -> WindowSize {
    let k: u8 = kani::any();
    kani::assume(k < 5);
    match k {
        0 => WindowSize::Mss(kani::any()),
        1 => WindowSize::Mtu(kani::any()),
        2 => WindowSize::Value(kani::any()),
        3 => WindowSize::Mod(kani::any()),
        _ => WindowSize::Any,
    }
}
pub fn any_ipver() -> IpVersion {
    let k: u8 = kani::any();
    kani::assume(k < 3);
    match k {
        0 => IpVersion::V4,
        1 => IpVersion::V6,
        _ => IpVersion::Any,
    }
}
pub fn any_pclass() -> PayloadSize {
    let k: u8 = kani::any();
    kani::assume(k < 3);
    match k {
        0 => PayloadSize::Zero,
        1 => PayloadSize::NonZero,
        _ => PayloadSize::Any,
    }
}
pub fn any_tcpopt() -> TcpOption {
    let k: u8 = kani::any();
    kani::assume(k < 8);
    match k {
        0 => TcpOption::Eol(kani::any()),
        1 => TcpOption::Nop,
        2 => TcpOption::Mss,
        3 => TcpOption::Ws,
        4 => TcpOption::Sok,
        5 => TcpOption::Sack,
        6 => TcpOption::TS,
        _ => TcpOption::Unknown(kani::any()),
    }
}
pub fn any_quirk() -> Quirk {
    let k: u8 = kani::any();
    kani::assume(k < 17);
    match k {
        0 => Quirk::Df,
        1 => Quirk::NonZeroID,
        2 => Quirk::ZeroID,
        3 => Quirk::Ecn,
        4 => Quirk::MustBeZero,
        5 => Quirk::FlowID,
        6 => Quirk::SeqNumZero,
        7 => Quirk::AckNumNonZero,
        8 => Quirk::AckNumZero,
        9 => Quirk::NonZeroURG,
        10 => Quirk::Urg,
        11 => Quirk::Push,
        12 => Quirk::OwnTimestampZero,
        13 => Quirk::PeerTimestampNonZero,
        14 => Quirk::TrailinigNonZero,
        15 => Quirk::ExcessiveWindowScaling,
        _ => Quirk::OptBad,
    }
}
pub fn any_opt_u16() -> Option<u16> {
    if kani::any() {
        Some(kani::any())
    } else {
        None
    }
}
pub fn any_opt_u8() -> Option<u8> {
    if kani::any() {
        Some(kani::any())
    } else {
        None
    }
}

// ------------------------------------------------------------------ oracle (p0f semantics)
/// effective initial TTL a TTL value stands for, and whether it is of the "bad" class
fn ttl_sem(t: &Ttl) -> (u16, bool) {
    match t {
        Ttl::Value(v) => (*v as u16, false),
        Ttl::Distance(t, d) => ((*t as u16 + *d as u16).min(255), false),
        Ttl::Guess(g) => (*g as u16, false),
        Ttl::Bad(b) => (*b as u16, true),
    }
}

/// Some(true/false) = must be accepted with distance 0 / with the penalty; None = the property
/// leaves the pair open (forms the analyzer never produces or p0f does not define).
fn ttl_must(obs: &Ttl, sig: &Ttl) -> Option<bool> {
    match (obs, sig) {
        (Ttl::Distance(t, d), Ttl::Value(i)) => Some((*t as u16 + *d as u16).min(255) == *i as u16),
        (Ttl::Value(v), Ttl::Value(i)) => Some(v == i),
        (Ttl::Bad(a), Ttl::Bad(b)) => Some(a == b),
        (Ttl::Guess(a), Ttl::Guess(b)) => Some(a == b),
        (Ttl::Value(v), Ttl::Guess(g)) => Some(v == g),
        _ => None,
    }
}

const TTL_PENALTY: u32 = 2;
const WIN_PENALTY: u32 = 2;

#[kani::proof]
pub fn c12_ttl_pairs() {
    let obs = any_ttl();
    let sig = any_ttl();
    let got = obs.distance_ttl(&sig);
    kani::cover!(got == Some(0), "ttl equal");
    kani::cover!(got == Some(TTL_PENALTY), "ttl comparable, different");
    kani::cover!(got.is_none(), "ttl incomparable");
    // only the three outcomes exist
    assert!(
        got.is_none() || got == Some(0) || got == Some(TTL_PENALTY),
        "C12 ttl distance is 0, the fixed penalty, or incomparable"
    );
    // soundness: distance 0 only for the same initial TTL of the same class
    let (io, bo) = ttl_sem(&obs);
    let (is, bs) = ttl_sem(&sig);
    if got == Some(0) {
        assert!(io == is && bo == bs, "C12 ttl distance 0 only for equal initial TTL");
    }
    // bad TTLs are never comparable with good ones
    if bo != bs {
        assert!(got.is_none(), "C12 ttl bad vs good is incomparable");
    }
    // completeness on the defined pairs
    if let Some(eq) = ttl_must(&obs, &sig) {
        assert!(
            got == Some(if eq { 0 } else { TTL_PENALTY }),
            "C12 ttl defined pair: 0 when equal, penalty otherwise"
        );
    }
}

/// A TTL equal to the signature's initial TTL minus any plausible hop count is an instance.
/// Standard initial TTLs (32, 64, 128, 255).
#[kani::proof]
pub fn c12_ttl_hops_standard() {
    let k: u8 = kani::any();
    kani::assume(k < 4);
    let initial: u8 = match k {
        0 => 32,
        1 => 64,
        2 => 128,
        _ => 255,
    };
    let hops: u8 = kani::any();
    kani::assume(hops <= 30);
    let observed_ttl = initial - hops;
    let obs = calculate_ttl(observed_ttl);
    let got = obs.distance_ttl(&Ttl::Value(initial));
    kani::cover!(hops == 30, "30 hops");
    assert!(got == Some(0), "C12 initial TTL minus plausible hop count is accepted with 0");
}

/// Same law for every other initial TTL (p0f.fp itself uses 192): known finding D10.
#[kani::proof]
pub fn c12_ttl_hops_nonstandard() {
    let initial: u8 = kani::any();
    kani::assume(initial != 32 && initial != 64 && initial != 128 && initial != 255);
    let hops: u8 = kani::any();
    kani::assume(hops <= 30 && hops < initial);
    let obs = calculate_ttl(initial - hops);
    let got = obs.distance_ttl(&Ttl::Value(initial));
    assert!(got == Some(0), "C12 non-standard initial TTL minus plausible hop count is accepted with 0");
}

fn win_same_form(a: &WindowSize, b: &WindowSize) -> Option<bool> {
    match (a, b) {
        (WindowSize::Mss(x), WindowSize::Mss(y)) => Some(x == y),
        (WindowSize::Mtu(x), WindowSize::Mtu(y)) => Some(x == y),
        (WindowSize::Value(x), WindowSize::Value(y)) => Some(x == y),
        (WindowSize::Mod(x), WindowSize::Mod(y)) => Some(x == y),
        _ => None,
    }
}

#[kani::proof]
pub fn c12_window_pairs() {
    let obs = any_wsize();
    let sig = any_wsize();
    let mss = any_opt_u16();
    let got = obs.distance_window_size(&sig, mss);
    kani::cover!(got == Some(0), "window equal");
    kani::cover!(got == Some(WIN_PENALTY), "window comparable, different");
    kani::cover!(got.is_none(), "window incomparable");
    assert!(
        got.is_none() || got == Some(0) || got == Some(WIN_PENALTY),
        "C12 window distance is 0, the fixed penalty, or incomparable"
    );
    // wildcard accepts everything with 0
    if sig == WindowSize::Any {
        assert!(got == Some(0), "C12 window wildcard accepts everything with 0");
    } else if let Some(eq) = win_same_form(&obs, &sig) {
        assert!(
            got == Some(if eq { 0 } else { WIN_PENALTY }),
            "C12 window same form: 0 when equal, penalty otherwise"
        );
    } else if let (WindowSize::Value(w), WindowSize::Mss(n)) = (&obs, &sig) {
        // raw window against `mss*n`: an instance iff the window is exactly n times the MSS
        let inst = match mss {
            Some(m) if m > 0 => (*w as u32) == (*n as u32) * (m as u32),
            _ => false,
        };
        kani::cover!(inst, "raw window is n*mss");
        assert!(
            got == Some(if inst { 0 } else { WIN_PENALTY }),
            "C12 raw window vs mss*n: 0 iff window == n*mss, penalty otherwise"
        );
    } else if obs != WindowSize::Any {
        // different forms: never a free match
        assert!(got != Some(0), "C12 window of a different form is never accepted with 0");
    }
}

#[kani::proof]
pub fn c12_version_pclass() {
    let ov = any_ipver();
    let sv = any_ipver();
    kani::assume(ov != IpVersion::Any); // observations are V4 or V6
    let got = ov.distance_ip_version(&sv);
    assert!(
        got == if sv == IpVersion::Any || sv == ov { Some(0) } else { None },
        "C12 ip version: decisive, wildcard accepts"
    );
    let op = any_pclass();
    let sp = any_pclass();
    kani::assume(op != PayloadSize::Any);
    let got = op.distance_payload_size(&sp);
    assert!(
        got == if sp == PayloadSize::Any || sp == op { Some(0) } else { None },
        "C12 payload class: decisive, wildcard accepts"
    );
    kani::cover!(got.is_none(), "pclass mismatch");
}

/// component oracle for the whole signature with empty/equal layouts
fn tcp_sum_oracle(sig: &tcp::Signature, obs: &TcpObservation) -> Option<u32> {
    let mut d = 0u32;
    if !(sig.version == IpVersion::Any || sig.version == obs.version) {
        return None;
    }
    d += obs.ittl.distance_ttl(&sig.ittl)?; // checked on its own in c12_ttl_pairs
    if obs.olen != sig.olen {
        d += 2;
    }
    if sig.mss.is_some() && sig.mss != obs.mss {
        d += 2;
    }
    d += obs.wsize.distance_window_size(&sig.wsize, obs.mss)?; // checked in c12_window_pairs
    // (an absent window-scale option means scale 0)
    if sig.wscale.is_some() && sig.wscale.unwrap_or(0) != obs.wscale.unwrap_or(0) {
        d += 1;
    }
    if obs.olayout != sig.olayout || obs.quirks != sig.quirks {
        return None;
    }
    if !(sig.pclass == PayloadSize::Any || sig.pclass == obs.pclass) {
        return None;
    }
    Some(d)
}

/// all scalar fields of signature and observation symbolic, empty layouts: the total is the sum of
/// the per-field distances (so a single-field change moves the sum by exactly that field's
/// penalty), decisive fields reject, wildcards accept.
#[kani::proof]
#[kani::unwind(4)]
pub fn c12_tcp_sum_scalars() {
    let sig = tcp::Signature {
        version: any_ipver(),
        ittl: any_ttl(),
        olen: kani::any(),
        mss: any_opt_u16(),
        wsize: any_wsize(),
        wscale: any_opt_u8(),
        olayout: Vec::new(),
        quirks: Vec::new(),
        pclass: any_pclass(),
    };
    let ov = any_ipver();
    kani::assume(ov != IpVersion::Any);
    let op = any_pclass();
    kani::assume(op != PayloadSize::Any);
    let obs = TcpObservation {
        version: ov,
        ittl: any_ttl(),
        olen: kani::any(),
        mss: any_opt_u16(),
        wsize: any_wsize(),
        wscale: any_opt_u8(),
        olayout: Vec::new(),
        quirks: Vec::new(),
        pclass: op,
    };
    let got = sig.calculate_distance(&obs);
    let want = tcp_sum_oracle(&sig, &obs);
    kani::cover!(got == Some(0), "perfect match");
    kani::cover!(got == Some(7), "all penalties at once");
    kani::cover!(got.is_none(), "rejected");
    assert!(got == want, "C12 tcp distance == sum of per-field distances / decisive rejection");
    core::mem::forget(sig);
    core::mem::forget(obs);
}

/// option layout and quirk list are decisive: two-element lists with symbolic elements
#[kani::proof]
#[kani::unwind(4)]
pub fn c12_tcp_layout_quirks_decisive() {
    let so = [any_tcpopt(), any_tcpopt()];
    let oo = [any_tcpopt(), any_tcpopt()];
    let sq = [any_quirk(), any_quirk()];
    let oq = [any_quirk(), any_quirk()];
    let sig = tcp::Signature {
        version: IpVersion::Any,
        ittl: Ttl::Value(64),
        olen: 0,
        mss: None,
        wsize: WindowSize::Any,
        wscale: None,
        olayout: so.to_vec(),
        quirks: sq.to_vec(),
        pclass: PayloadSize::Any,
    };
    let obs = TcpObservation {
        version: IpVersion::V4,
        ittl: Ttl::Distance(60, 4),
        olen: 0,
        mss: Some(1460),
        wsize: WindowSize::Mss(4),
        wscale: Some(7),
        olayout: oo.to_vec(),
        quirks: oq.to_vec(),
        pclass: PayloadSize::Zero,
    };
    let got = sig.calculate_distance(&obs);
    let same = so == oo && sq == oq;
    kani::cover!(same, "same lists");
    kani::cover!(!same, "different lists");
    assert!(got == if same { Some(0) } else { None }, "C12 option layout and quirks are decisive");
    core::mem::forget(sig);
    core::mem::forget(obs);
}

/// different list lengths are decisive too (observed has one more / one fewer option or quirk)
#[kani::proof]
#[kani::unwind(4)]
pub fn c12_tcp_layout_length_decisive() {
    let a = any_tcpopt();
    let b = any_tcpopt();
    let longer_obs: bool = kani::any();
    let on_quirks: bool = kani::any();
    let q = any_quirk();
    let (sl, ol, sq, oq) = if on_quirks {
        if longer_obs {
            (vec![a.clone()], vec![a.clone()], vec![], vec![q])
        } else {
            (vec![a.clone()], vec![a.clone()], vec![q], vec![])
        }
    } else if longer_obs {
        (vec![a.clone()], vec![a.clone(), b], vec![], vec![])
    } else {
        (vec![a.clone(), b], vec![a.clone()], vec![], vec![])
    };
    let sig = tcp::Signature {
        version: IpVersion::Any,
        ittl: Ttl::Value(64),
        olen: 0,
        mss: None,
        wsize: WindowSize::Any,
        wscale: None,
        olayout: sl,
        quirks: sq,
        pclass: PayloadSize::Any,
    };
    let obs = TcpObservation {
        version: IpVersion::V6,
        ittl: Ttl::Value(64),
        olen: 0,
        mss: None,
        wsize: WindowSize::Value(1),
        wscale: None,
        olayout: ol,
        quirks: oq,
        pclass: PayloadSize::NonZero,
    };
    assert!(sig.calculate_distance(&obs).is_none(), "C12 a longer or shorter list is decisive");
    core::mem::forget(sig);
    core::mem::forget(obs);
}

// ------------------------------------------------------------------ score tables, all 2^32 distances
fn score_laws(s: fn(u32) -> f32) {
    let d1: u32 = kani::any();
    let d2: u32 = kani::any();
    let s1 = s(d1);
    let s2 = s(d2);
    assert!(s1 >= 0.05 && s1 <= 1.0, "C12 quality within [0.05, 1.0]");
    if d1 <= d2 {
        assert!(s1 >= s2, "C12 quality is non-increasing in distance");
    }
    assert!((s1 == 1.0) == (d1 == 0), "C12 quality is 1.0 exactly at distance 0");
    kani::cover!(s1 == 0.05, "floor reached");
}

#[kani::proof]
pub fn c12_score_tcp() {
    score_laws(TcpMatchQuality::distance_to_score);
}

#[kani::proof]
pub fn c12_score_http() {
    score_laws(HttpMatchQuality::distance_to_score);
}

/// the scores the matcher hands out are the table values (get_quality_score = table)
#[kani::proof]
#[kani::unwind(4)]
pub fn c12_score_via_signature() {
    let d: u32 = kani::any();
    let sig = tcp::Signature {
        version: IpVersion::Any,
        ittl: Ttl::Value(64),
        olen: 0,
        mss: None,
        wsize: WindowSize::Any,
        wscale: None,
        olayout: Vec::new(),
        quirks: Vec::new(),
        pclass: PayloadSize::Any,
    };
    let s = <tcp::Signature as DatabaseSignature<TcpObservation>>::get_quality_score(&sig, d);
    assert!((s == 1.0) == (d == 0) && s >= 0.05 && s <= 1.0, "C12 tcp signature score law");
    core::mem::forget(sig);
}

// ------------------------------------------------------------------ HTTP
pub fn any_http_version_obs() -> Version {
    let k: u8 = kani::any();
    kani::assume(k < 4);
    match k {
        0 => Version::V10,
        1 => Version::V11,
        2 => Version::V20,
        _ => Version::V30,
    }
}
pub fn any_http_version() -> Version {
    let k: u8 = kani::any();
    kani::assume(k < 5);
    match k {
        0 => Version::V10,
        1 => Version::V11,
        2 => Version::V20,
        3 => Version::V30,
        _ => Version::Any,
    }
}

fn hdr(name: &str, value: Option<&str>, optional: bool) -> Header {
    Header { optional, name: name.to_string(), value: value.map(|v| v.to_string()) }
}

fn band(errors: u32) -> Option<u32> {
    if errors <= 2 {
        Some(0)
    } else if errors <= 5 {
        Some(1)
    } else if errors <= 8 {
        Some(2)
    } else if errors <= 11 {
        Some(3)
    } else {
        None
    }
}

fn sig3(o0: bool, o1: bool, o2: bool) -> [Header; 3] {
    [
        hdr("Host", None, o0),
        hdr("Accept", Some("*/*"), o1),
        hdr("Connection", Some("keep-alive"), o2),
    ]
}

/// instances: the signature's list with any subset of its optional headers left out → Some(0)
macro_rules! http_instance_harness {
    ($name:ident, $keep0:expr, $keep1:expr, $keep2:expr) => {
        #[kani::proof]
        #[kani::unwind(20)]
        pub fn $name() {
            let o0: bool = kani::any();
            let o1: bool = kani::any();
            let o2: bool = kani::any();
            // a header may only be left out of the observation if the signature marks it optional
            kani::assume($keep0 || o0);
            kani::assume($keep1 || o1);
            kani::assume($keep2 || o2);
            let sig = sig3(o0, o1, o2);
            let full = sig3(false, false, false);
            let mut obs: Vec<Header> = Vec::new();
            if $keep0 {
                obs.push(full[0].clone());
            }
            if $keep1 {
                obs.push(full[1].clone());
            }
            if $keep2 {
                obs.push(full[2].clone());
            }
            let got = <HttpRequestObservation as HttpDistance>::distance_header(&obs, &sig);
            kani::cover!(o0 && o1 && o2, "all optional");
            assert!(got == Some(0), "C12 http header list instance is accepted with 0");
            core::mem::forget(obs);
            core::mem::forget(sig);
            core::mem::forget(full);
        }
    };
}
http_instance_harness!(c12_http_instance_111, true, true, true);
http_instance_harness!(c12_http_instance_011, false, true, true);
http_instance_harness!(c12_http_instance_101, true, false, true);
http_instance_harness!(c12_http_instance_110, true, true, false);
http_instance_harness!(c12_http_instance_001, false, false, true);
http_instance_harness!(c12_http_instance_100, true, false, false);
http_instance_harness!(c12_http_instance_010, false, true, false);
http_instance_harness!(c12_http_instance_000, false, false, false);

/// error counting and bands: the observation holds none of the signature's headers and E foreign
/// headers; errors = required signature headers (missing) + E (unexpected)
macro_rules! http_band_harness {
    ($name:ident, $extras:expr) => {
        #[kani::proof]
        #[kani::unwind(20)]
        pub fn $name() {
            let o0: bool = kani::any();
            let o1: bool = kani::any();
            let o2: bool = kani::any();
            let sig = sig3(o0, o1, o2);
            let names = ["X-A", "X-B", "X-C", "X-D", "X-E", "X-F", "X-G", "X-H", "X-I", "X-J"];
            let mut obs: Vec<Header> = Vec::new();
            let mut i = 0;
            while i < $extras {
                obs.push(hdr(names[i], None, false));
                i += 1;
            }
            let required = (!o0) as u32 + (!o1) as u32 + (!o2) as u32;
            let got = <HttpRequestObservation as HttpDistance>::distance_header(&obs, &sig);
            assert!(
                got == band(required + $extras as u32),
                "C12 http header errors: missing required + unexpected, banded 0-2/3-5/6-8/9-11/12+"
            );
            core::mem::forget(obs);
            core::mem::forget(sig);
        }
    };
}
http_band_harness!(c12_http_band_e0, 0);
http_band_harness!(c12_http_band_e2, 2);
http_band_harness!(c12_http_band_e3, 3);
http_band_harness!(c12_http_band_e5, 5);
http_band_harness!(c12_http_band_e6, 6);
http_band_harness!(c12_http_band_e8, 8);
http_band_harness!(c12_http_band_e9, 9);
http_band_harness!(c12_http_band_e10, 10);

/// a changed value counts for a required header only; value of an optional header is free
#[kani::proof]
#[kani::unwind(20)]
pub fn c12_http_value_change() {
    let o0: bool = kani::any();
    let o1: bool = kani::any();
    let o2: bool = kani::any();
    let sig = sig3(o0, o1, o2);
    // three foreign headers at the end put the count at the band edge: 3 errors + changed values
    let obs = [
        hdr("Host", None, false),
        hdr("Accept", Some("text/html"), false),
        hdr("Connection", Some("close"), false),
        hdr("X-A", None, false),
        hdr("X-B", None, false),
    ];
    let errors = 2 + (!o1) as u32 + (!o2) as u32;
    let got = <HttpRequestObservation as HttpDistance>::distance_header(&obs, &sig);
    kani::cover!(got == Some(1), "crossed into the medium band");
    assert!(got == band(errors), "C12 http changed value counts iff the header is required");
    core::mem::forget(obs);
    core::mem::forget(sig);
}

/// whole HTTP signature: instance => Some(0); version decisive; wildcard version accepts
macro_rules! http_sig_harness {
    ($name:ident, $with_optional:expr) => {
        #[kani::proof]
        #[kani::unwind(30)]
        pub fn $name() {
            let sv = any_http_version();
            let ov = any_http_version_obs();
            let sig = http::Signature {
                version: sv,
                horder: sig3(false, true, false).to_vec(),
                habsent: vec![hdr("Accept-Language", None, false)],
                expsw: "Firefox/".to_string(),
            };
            let mut horder = vec![hdr("Host", None, false)];
            if $with_optional {
                horder.push(hdr("Accept", Some("*/*"), false));
            }
            horder.push(hdr("Connection", Some("keep-alive"), false));
            let obs = HttpRequestObservation {
                version: ov,
                horder,
                habsent: vec![hdr("Accept-Language", None, false)],
                // equal strings: the containment direction (known finding D11) is checked on its
                // own in c12_http_expsw_*
                expsw: "Firefox/".to_string(),
            };
            let got = sig.calculate_distance(&obs);
            let version_ok = sv == Version::Any || sv == ov;
            kani::cover!(version_ok, "version accepted");
            kani::cover!(!version_ok, "version rejected");
            if !version_ok {
                assert!(got.is_none(), "C12 http version is decisive");
            } else {
                assert!(
                    got == Some(0),
                    "C12 http signature instance is accepted with 0"
                );
            }
            core::mem::forget(sig);
            core::mem::forget(obs);
        }
    };
}
http_sig_harness!(c12_http_signature_with_optional, true);
http_sig_harness!(c12_http_signature_without_optional, false);

/// software string: containment in the right direction, and a non-containing string is penalised
macro_rules! http_expsw_harness {
    ($name:ident, $observed:expr, $want:expr) => {
        #[kani::proof]
        #[kani::unwind(30)]
        pub fn $name() {
            let sig = http::Signature {
                version: Version::Any,
                horder: Vec::new(),
                habsent: Vec::new(),
                expsw: "nginx/".to_string(),
            };
            let obs = HttpResponseObservation {
                version: any_http_version_obs(),
                horder: Vec::new(),
                habsent: Vec::new(),
                expsw: $observed.to_string(),
            };
            let got = sig.calculate_distance(&obs);
            assert!(
                got == $want,
                "C12 software string: 0 iff it contains the expected substring, fixed penalty otherwise"
            );
            core::mem::forget(sig);
            core::mem::forget(obs);
        }
    };
}
http_expsw_harness!(c12_http_expsw_contains, "nginx/1.18.0", Some(0));
http_expsw_harness!(c12_http_expsw_equal, "nginx/", Some(0));
http_expsw_harness!(c12_http_expsw_other, "Apache", Some(3));
http_expsw_harness!(c12_http_expsw_substring_of_token, "ngin", Some(3));
