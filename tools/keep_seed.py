#!/usr/bin/env python3
"""keep_seed.py <PROP> <n> <detected: yes|no|partial> <detail...> : store a confirmed seeded change under /verif/seeded/"""
import json, os, shutil, sys
P, n, det = sys.argv[1], sys.argv[2], sys.argv[3]
detail = " ".join(sys.argv[4:])
src = f"/tmp/seed_out/{P}"
dst = f"/verif/seeded/{P}-{n}"
os.makedirs(dst, exist_ok=True)
shutil.copy(f"{src}/patch{n}.diff", f"{dst}/patch.diff")
shutil.copy(f"{src}/demo{n}.rs", f"{dst}/demo.rs")
m = json.load(open(f"{src}/meta{n}.json"))
meta = {"property": P, "summary": m.get("summary"), "needs": m.get("needs"),
        "author": "independent sub-agent given only the property text and a scratch worktree",
        "confirmed_by_me": "tools/confirm_seed.sh: demo passes on the unchanged tree; with the patch the existing suite still passes (only the known golden failure) and the demo fails",
        "ran": ["/verif/tools/confirm_seed.sh %s %s" % (P, n), "/verif/tools/try_seed.sh seeded/%s-%s/patch.diff %s" % (P, n, P)],
        "detected": det, "detected_detail": detail, "agent_ran": m.get("ran")}
json.dump(meta, open(f"{dst}/meta.json", "w"), indent=1)
print("kept", dst)
