//! C18 — dispatch keeps connections together: the worker chosen for a frame is a function of its
//! connection identity alone and a valid index.  Two-run non-interference: two frames that the
//! analyzer's own decoder maps to the same identity (source address for TCP, directed 4-tuple
//! for TLS, undirected 4-tuple for HTTP), otherwise independent, get the same worker.
//! The accounting clause (queued/dropped counters under concurrent dispatchers) needs threads:
//! outside reach.
use pnet::packet::ip::IpNextHeaderProtocols;
use pnet::packet::tcp::TcpPacket;
use pnet::packet::Packet;

/// what the analyzers' decoder yields for a frame: (v6?, src, dst, sport, dport)
macro_rules! endpoints_fn {
    ($krate:ident) => {
        fn endpoints(frame: &[u8]) -> Option<(bool, u128, u128, u16, u16)> {
            use $krate::packet_parser::{parse_packet, IpPacket};
            match parse_packet(frame) {
                IpPacket::Ipv4(ip) => {
                    if ip.get_next_level_protocol() != IpNextHeaderProtocols::Tcp {
                        return None;
                    }
                    let tcp = TcpPacket::new(ip.payload())?;
                    Some((
                        false,
                        u32::from(ip.get_source()) as u128,
                        u32::from(ip.get_destination()) as u128,
                        tcp.get_source(),
                        tcp.get_destination(),
                    ))
                }
                IpPacket::Ipv6(ip) => {
                    if ip.get_next_header() != IpNextHeaderProtocols::Tcp {
                        return None;
                    }
                    let tcp = TcpPacket::new(ip.payload())?;
                    Some((
                        true,
                        u128::from(ip.get_source()),
                        u128::from(ip.get_destination()),
                        tcp.get_source(),
                        tcp.get_destination(),
                    ))
                }
                _ => None,
            }
        }
    };
}

/// frame skeletons: the link/IP framing bytes are fixed, everything else symbolic
/// 0 = raw IPv4 (IHL symbolic), 1 = Ethernet + IPv4, 2 = raw IPv6, 3 = Ethernet + IPv6,
/// 4 = NULL/loopback + IPv6, 5 = NULL/loopback + IPv4
pub fn skeleton<const N: usize>(kind: u8) -> [u8; N] {
    let mut f: [u8; N] = kani::any();
    match kind {
        0 => {
            f[0] = 0x40 | (f[0] & 0x0f);
            // not an Ethernet frame at the same time
            kani::assume(!((f[12] == 0x08 && f[13] == 0x00) || (f[12] == 0x86 && f[13] == 0xdd)));
        }
        1 => {
            f[12] = 0x08;
            f[13] = 0x00;
            f[14] = 0x40 | (f[14] & 0x0f);
        }
        2 => {
            f[0] = 0x60 | (f[0] & 0x0f);
            kani::assume(!((f[12] == 0x08 && f[13] == 0x00) || (f[12] == 0x86 && f[13] == 0xdd)));
        }
        3 => {
            f[12] = 0x86;
            f[13] = 0xdd;
            f[14] = 0x60 | (f[14] & 0x0f);
        }
        4 => {
            // NULL/loopback framing as the packet parser recognises it: 1e 00 xx xx + IPv6
            f[0] = 0x1e;
            f[1] = 0x00;
            f[4] = 0x60 | (f[4] & 0x0f);
            kani::assume(!((f[12] == 0x08 && f[13] == 0x00) || (f[12] == 0x86 && f[13] == 0xdd)));
        }
        _ => {
            // NULL/loopback + IPv4
            f[0] = 0x1e;
            f[1] = 0x00;
            f[4] = 0x40 | (f[4] & 0x0f);
            kani::assume(!((f[12] == 0x08 && f[13] == 0x00) || (f[12] == 0x86 && f[13] == 0xdd)));
        }
    }
    f
}

pub mod tcp {
    use super::*;
    use huginn_net_tcp::packet_hash::hash_source_ip;
    endpoints_fn!(huginn_net_tcp);

    fn same_source<const N: usize>(kind: u8) {
        let a = skeleton::<N>(kind);
        let b = skeleton::<N>(kind);
        let ea = endpoints(&a);
        let eb = endpoints(&b);
        kani::assume(ea.is_some() && eb.is_some());
        let (va, sa, _, _, _) = ea.unwrap();
        let (vb, sb, _, _, _) = eb.unwrap();
        kani::assume(va == vb && sa == sb);
        kani::cover!(a[N - 1] != b[N - 1], "frames differ in payload");
        let ha = hash_source_ip(&a);
        let hb = hash_source_ip(&b);
        assert!(ha == hb, "C18 tcp worker depends on the source address only");
    }

    #[kani::proof]
    #[kani::unwind(70)]
    pub fn c18_tcp_raw_v4() {
        same_source::<60>(0)
    }
    #[kani::proof]
    #[kani::unwind(70)]
    pub fn c18_tcp_eth_v4() {
        same_source::<54>(1)
    }
    #[kani::proof]
    #[kani::unwind(90)]
    pub fn c18_tcp_raw_v6() {
        same_source::<60>(2)
    }
    #[kani::proof]
    #[kani::unwind(90)]
    pub fn c18_tcp_eth_v6() {
        same_source::<74>(3)
    }
    #[kani::proof]
    #[kani::unwind(70)]
    pub fn c18_tcp_null_v4() {
        same_source::<64>(5)
    }
    #[kani::proof]
    #[kani::unwind(90)]
    pub fn c18_tcp_null_v6() {
        same_source::<64>(4)
    }
}

macro_rules! flow_mod {
    ($m:ident, $krate:ident, $directed:expr, $call:expr) => {
        pub mod $m {
            use super::*;
            endpoints_fn!($krate);

            fn worker(frame: &[u8], n: usize) -> Option<usize> {
                $call(frame, n)
            }

            fn same_flow<const N: usize>(kind: u8, n: usize) {
                let a = skeleton::<N>(kind);
                let b = skeleton::<N>(kind);
                let ea = endpoints(&a);
                let eb = endpoints(&b);
                kani::assume(ea.is_some() && eb.is_some());
                let (va, sa, da, spa, dpa) = ea.unwrap();
                let (vb, sb, db, spb, dpb) = eb.unwrap();
                let same_dir = va == vb && sa == sb && da == db && spa == spb && dpa == dpb;
                let reversed = va == vb && sa == db && da == sb && spa == dpb && dpa == spb;
                if $directed {
                    kani::assume(same_dir);
                } else {
                    kani::assume(same_dir || reversed);
                    kani::cover!(reversed && !same_dir, "opposite directions of one connection");
                }
                kani::cover!(a[N - 1] != b[N - 1], "frames differ in payload");
                let wa = worker(&a, n);
                let wb = worker(&b, n);
                assert!(wa == wb, "C18 worker depends on the connection identity only");
                if let Some(w) = wa {
                    assert!(w < n, "C18 worker index is valid");
                }
            }

            /// any frame, any worker count: a valid index (or none), never a panic
            fn valid_index<const N: usize>() {
                let buf: [u8; N] = kani::any();
                let len: usize = kani::any();
                kani::assume(len <= N);
                let n: usize = kani::any();
                let w = worker(&buf[..len], n);
                if let Some(w) = w {
                    assert!(w < n || (n == 0 && w == 0), "C18 worker index is valid");
                }
            }

            #[kani::proof]
            #[kani::unwind(70)]
            pub fn c18_valid_index_64() {
                valid_index::<64>()
            }
            #[kani::proof]
            #[kani::unwind(70)]
            pub fn c18_raw_v4_n4() {
                same_flow::<60>(0, 4)
            }
            #[kani::proof]
            #[kani::unwind(70)]
            pub fn c18_raw_v4_n3() {
                same_flow::<60>(0, 3)
            }
            #[kani::proof]
            #[kani::unwind(70)]
            pub fn c18_eth_v4_n4() {
                same_flow::<54>(1, 4)
            }
            #[kani::proof]
            #[kani::unwind(70)]
            pub fn c18_eth_v4_n7() {
                same_flow::<54>(1, 7)
            }
            #[kani::proof]
            #[kani::unwind(90)]
            pub fn c18_raw_v6_n4() {
                same_flow::<60>(2, 4)
            }
            #[kani::proof]
            #[kani::unwind(90)]
            pub fn c18_eth_v6_n16() {
                same_flow::<74>(3, 16)
            }
            #[kani::proof]
            #[kani::unwind(70)]
            pub fn c18_null_v4_n4() {
                same_flow::<64>(5, 4)
            }
        }
    };
}

flow_mod!(tls, huginn_net_tls, true, |f: &[u8], n: usize| huginn_net_tls::packet_hash::hash_flow(f, n));
flow_mod!(http, huginn_net_http, false, |f: &[u8], n: usize| Some(huginn_net_http::packet_hash::hash_flow(f, n)));
