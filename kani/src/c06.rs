//! C06 — signature text: the token grammar (text -> value) of the six leaf types of the TCP
//! signature language, for every ASCII string of a given length.  `t.parse::<T>()` must be Ok(v)
//! exactly when the p0f token grammar accepts the whole of `t`, with the value it assigns.
//! (value -> text -> value through core::fmt ran out of memory even for one u8; whole signature
//! lines, labels, Database::from_str and every Display impl are outside reach.)
use huginn_net_db::tcp::{IpVersion, PayloadSize, Quirk, TcpOption, Ttl, WindowSize};

fn is_digit(b: u8) -> bool {
    b >= b'0' && b <= b'9'
}

/// decimal number made of all of `s` (at least one digit), None if not all digits or > max
fn number(s: &[u8], max: u32) -> Option<u32> {
    if s.is_empty() {
        return None;
    }
    let mut v: u32 = 0;
    let mut i = 0;
    while i < s.len() {
        if !is_digit(s[i]) {
            return None;
        }
        v = v * 10 + (s[i] - b'0') as u32;
        if v > max {
            return None;
        }
        i += 1;
    }
    Some(v)
}

fn eq(s: &[u8], t: &[u8]) -> bool {
    if s.len() != t.len() {
        return false;
    }
    let mut i = 0;
    while i < s.len() {
        if s[i] != t[i] {
            return false;
        }
        i += 1;
    }
    true
}

fn starts(s: &[u8], t: &[u8]) -> bool {
    s.len() >= t.len() && eq(&s[..t.len()], t)
}

fn oracle_ipver(s: &[u8]) -> Option<IpVersion> {
    if eq(s, b"4") {
        Some(IpVersion::V4)
    } else if eq(s, b"6") {
        Some(IpVersion::V6)
    } else if eq(s, b"*") {
        Some(IpVersion::Any)
    } else {
        None
    }
}

fn oracle_pclass(s: &[u8]) -> Option<PayloadSize> {
    if eq(s, b"0") {
        Some(PayloadSize::Zero)
    } else if eq(s, b"+") {
        Some(PayloadSize::NonZero)
    } else if eq(s, b"*") {
        Some(PayloadSize::Any)
    } else {
        None
    }
}

fn oracle_quirk(s: &[u8]) -> Option<Quirk> {
    let table: [(&[u8], Quirk); 17] = [
        (b"df", Quirk::Df),
        (b"id+", Quirk::NonZeroID),
        (b"id-", Quirk::ZeroID),
        (b"ecn", Quirk::Ecn),
        (b"0+", Quirk::MustBeZero),
        (b"flow", Quirk::FlowID),
        (b"seq-", Quirk::SeqNumZero),
        (b"ack+", Quirk::AckNumNonZero),
        (b"ack-", Quirk::AckNumZero),
        (b"uptr+", Quirk::NonZeroURG),
        (b"urgf+", Quirk::Urg),
        (b"pushf+", Quirk::Push),
        (b"ts1-", Quirk::OwnTimestampZero),
        (b"ts2+", Quirk::PeerTimestampNonZero),
        (b"opt+", Quirk::TrailinigNonZero),
        (b"exws", Quirk::ExcessiveWindowScaling),
        (b"bad", Quirk::OptBad),
    ];
    let mut i = 0;
    while i < 17 {
        if eq(s, table[i].0) {
            return Some(table[i].1.clone());
        }
        i += 1;
    }
    None
}

fn oracle_tcpopt(s: &[u8]) -> Option<TcpOption> {
    if starts(s, b"eol+") {
        return number(&s[4..], 255).map(|n| TcpOption::Eol(n as u8));
    }
    if eq(s, b"nop") {
        return Some(TcpOption::Nop);
    }
    if eq(s, b"mss") {
        return Some(TcpOption::Mss);
    }
    if eq(s, b"ws") {
        return Some(TcpOption::Ws);
    }
    if eq(s, b"sok") {
        return Some(TcpOption::Sok);
    }
    if eq(s, b"sack") {
        return Some(TcpOption::Sack);
    }
    if eq(s, b"ts") {
        return Some(TcpOption::TS);
    }
    if starts(s, b"?") {
        return number(&s[1..], 255).map(|n| TcpOption::Unknown(n as u8));
    }
    None
}

fn oracle_ttl(s: &[u8]) -> Option<Ttl> {
    // nnn- | nnn+? | nnn+ddd | nnn
    let mut k = 0;
    while k < s.len() && is_digit(s[k]) {
        k += 1;
    }
    let n = number(&s[..k], 255)?;
    let rest = &s[k..];
    if rest.is_empty() {
        return Some(Ttl::Value(n as u8));
    }
    if eq(rest, b"-") {
        return Some(Ttl::Bad(n as u8));
    }
    if eq(rest, b"+?") {
        return Some(Ttl::Guess(n as u8));
    }
    if rest[0] == b'+' {
        return number(&rest[1..], 255).map(|d| Ttl::Distance(n as u8, d as u8));
    }
    None
}

fn oracle_window(s: &[u8]) -> Option<WindowSize> {
    if eq(s, b"*") {
        return Some(WindowSize::Any);
    }
    if starts(s, b"mss*") {
        return number(&s[4..], 255).map(|n| WindowSize::Mss(n as u8));
    }
    if starts(s, b"mtu*") {
        return number(&s[4..], 255).map(|n| WindowSize::Mtu(n as u8));
    }
    if starts(s, b"%") {
        return number(&s[1..], 65_535).map(|n| WindowSize::Mod(n as u16));
    }
    number(s, 65_535).map(|n| WindowSize::Value(n as u16))
}

macro_rules! token_harness {
    ($name:ident, $ty:ty, $oracle:ident, $len:expr) => {
        #[kani::proof]
        #[kani::stub(alloc::fmt::format, crate::util::stub_format)]
        #[kani::unwind(20)]
        pub fn $name() {
            let bytes: [u8; $len] = kani::any();
            let mut i = 0;
            while i < $len {
                kani::assume(bytes[i] >= 0x20 && bytes[i] < 0x7f);
                i += 1;
            }
            let text = match core::str::from_utf8(&bytes) {
                Ok(t) => t,
                Err(_) => return,
            };
            let got = text.parse::<$ty>();
            let want = $oracle(&bytes);
            kani::cover!(got.is_err(), "the parser was reached and rejected some string of this length");
            match (&got, &want) {
                (Ok(g), Some(w)) => assert!(g == w, "C06 token parses to the value the grammar assigns"),
                (Ok(_), None) => assert!(false, "C06 text that is not a token of the grammar is rejected"),
                (Err(_), Some(_)) => assert!(false, "C06 every token of the grammar is accepted"),
                (Err(_), None) => {}
            }
            core::mem::forget(got);
        }
    };
}

token_harness!(c06_ipver_1, IpVersion, oracle_ipver, 1);
token_harness!(c06_ipver_2, IpVersion, oracle_ipver, 2);
token_harness!(c06_pclass_1, PayloadSize, oracle_pclass, 1);
token_harness!(c06_pclass_2, PayloadSize, oracle_pclass, 2);
token_harness!(c06_quirk_2, Quirk, oracle_quirk, 2);
token_harness!(c06_quirk_3, Quirk, oracle_quirk, 3);
token_harness!(c06_quirk_4, Quirk, oracle_quirk, 4);
token_harness!(c06_tcpopt_2, TcpOption, oracle_tcpopt, 2);
token_harness!(c06_tcpopt_3, TcpOption, oracle_tcpopt, 3);
token_harness!(c06_tcpopt_4, TcpOption, oracle_tcpopt, 4);
token_harness!(c06_ttl_1, Ttl, oracle_ttl, 1);
token_harness!(c06_ttl_2, Ttl, oracle_ttl, 2);
token_harness!(c06_ttl_3, Ttl, oracle_ttl, 3);
token_harness!(c06_ttl_4, Ttl, oracle_ttl, 4);
token_harness!(c06_window_1, WindowSize, oracle_window, 1);
token_harness!(c06_window_2, WindowSize, oracle_window, 2);
token_harness!(c06_window_3, WindowSize, oracle_window, 3);
token_harness!(c06_window_4, WindowSize, oracle_window, 4);
