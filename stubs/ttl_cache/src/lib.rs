//! E3 environment model of `ttl_cache` 0.5.1 for Kani.
//!
//! Same observable behaviour as the real crate for the API subset huginn-net uses
//! (`new`, `insert`, `get`, `get_mut`, `contains_key`, `remove`, plus `len`-style introspection for
//! harnesses), but without `HashMap`/`RandomState`/`Instant`:
//!   * at most `SLOTS` live entries, kept in insertion order (index 0 = oldest);
//!   * `insert` of an existing key replaces the value and moves the entry to the back
//!     (linked-hash-map semantics), returns the old value unless it was expired;
//!   * after an insert, if `len > capacity` the oldest entry is evicted (capacity 0 evicts at once);
//!   * an entry is expired when `now > inserted_at + ttl`; expired entries are invisible to
//!     `get`/`get_mut`/`contains_key`/`remove` but still occupy their slot until evicted/replaced
//!     (exactly like the real crate, which never purges on lookup);
//!   * the clock is `MODEL_NOW_MS`, set by the harness (`set_now_ms`).
//! Inserting a fifth distinct key while 4 slots are occupied and capacity > 4 is outside the model:
//! it panics with a recognisable message (harnesses keep to <= 4 connections).
use std::borrow::Borrow;
use std::hash::Hash;
use std::time::Duration;

pub const SLOTS: usize = 4;

static mut MODEL_NOW_MS: u64 = 0;

pub fn set_now_ms(ms: u64) {
    unsafe { MODEL_NOW_MS = ms }
}
pub fn now_ms() -> u64 {
    unsafe { MODEL_NOW_MS }
}

struct Slot<K, V> {
    key: K,
    value: V,
    expiration_ms: u64,
}

pub struct TtlCache<K: Eq + Hash, V> {
    slots: [Option<Slot<K, V>>; SLOTS],
    len: usize,
    max_size: usize,
}

impl<K: Eq + Hash, V> TtlCache<K, V> {
    pub fn new(capacity: usize) -> Self {
        TtlCache { slots: [None, None, None, None], len: 0, max_size: capacity }
    }

    pub fn capacity(&self) -> usize {
        self.max_size
    }

    /// number of occupied slots (expired entries included, as in the real crate's `map.len()`)
    pub fn model_len(&self) -> usize {
        self.len
    }

    fn find<Q: ?Sized>(&self, k: &Q) -> Option<usize>
    where
        K: Borrow<Q>,
        Q: Hash + Eq,
    {
        let mut i = 0;
        while i < SLOTS {
            if let Some(s) = &self.slots[i] {
                if s.key.borrow() == k {
                    return Some(i);
                }
            }
            i += 1;
        }
        None
    }

    fn take_at(&mut self, idx: usize) -> Option<Slot<K, V>> {
        // remove slot idx, shift the younger ones down
        let out = self.slots[idx].take();
        let mut i = idx;
        while i + 1 < SLOTS {
            self.slots[i] = self.slots[i + 1].take();
            i += 1;
        }
        if out.is_some() {
            self.len -= 1;
        }
        out
    }

    fn expired(exp: u64) -> bool {
        now_ms() > exp
    }

    pub fn contains_key<Q: ?Sized>(&self, key: &Q) -> bool
    where
        K: Borrow<Q>,
        Q: Hash + Eq,
    {
        self.get(key).is_some()
    }

    pub fn insert(&mut self, k: K, v: V, ttl: Duration) -> Option<V> {
        let expiration_ms = now_ms().saturating_add(ttl.as_millis() as u64);
        let old = match self.find(&k) {
            Some(i) => self.take_at(i),
            None => None,
        };
        if self.len >= SLOTS {
            if self.max_size >= SLOTS {
                // real crate: would hold more than SLOTS live entries; outside the model
                if self.max_size > SLOTS {
                    panic!("ttl_cache model: more than 4 connections is outside the model");
                }
            }
            // len == SLOTS and max_size <= SLOTS: the real crate inserts then evicts the oldest;
            // evict first, same result
            self.take_at(0);
        }
        let at = self.len;
        self.slots[at] = Some(Slot { key: k, value: v, expiration_ms });
        self.len += 1;
        if self.len > self.max_size {
            self.take_at(0);
        }
        match old {
            Some(s) => {
                if Self::expired(s.expiration_ms) {
                    None
                } else {
                    Some(s.value)
                }
            }
            None => None,
        }
    }

    pub fn get<Q: ?Sized>(&self, k: &Q) -> Option<&V>
    where
        K: Borrow<Q>,
        Q: Hash + Eq,
    {
        match self.find(k) {
            Some(i) => match &self.slots[i] {
                Some(s) if !Self::expired(s.expiration_ms) => Some(&s.value),
                _ => None,
            },
            None => None,
        }
    }

    pub fn get_mut<Q: ?Sized>(&mut self, k: &Q) -> Option<&mut V>
    where
        K: Borrow<Q>,
        Q: Hash + Eq,
    {
        match self.find(k) {
            Some(i) => match &mut self.slots[i] {
                Some(s) if !Self::expired(s.expiration_ms) => Some(&mut s.value),
                _ => None,
            },
            None => None,
        }
    }

    pub fn remove<Q: ?Sized>(&mut self, k: &Q) -> Option<V>
    where
        K: Borrow<Q>,
        Q: Hash + Eq,
    {
        match self.find(k) {
            Some(i) => match self.take_at(i) {
                Some(s) if !Self::expired(s.expiration_ms) => Some(s.value),
                _ => None,
            },
            None => None,
        }
    }
}
