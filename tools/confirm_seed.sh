#!/bin/bash
# confirm_seed.sh <PROP> <n> : confirm a sub-agent's seeded change in its scratch worktree
#   (1) unchanged tree + demo  => demo passes
#   (2) patch applied          => existing suite still passes (only the known golden failure), demo fails
# usage: confirm_seed.sh C14 1 [worktree] [outdir]
P=$1; N=$2; WT=${3:-/tmp/seed_$P}; OUT=${4:-/tmp/seed_out/$P}
set -u
cd "$WT" || exit 2
git checkout -q -- . ; git clean -fdq -e target
hdr=$(head -1 "$OUT/demo$N.rs")
place=$(echo "$hdr" | sed -E 's/.*[Pp][Ll][Aa][Cc][Ee] [Aa][Tt]: *([^ ;]+).*/\1/')
runcmd=$(echo "$hdr" | sed -E 's/.*[Rr][Uu][Nn]: *(cargo .*)$/\1/')
echo "place=$place run=$runcmd"
cp "$OUT/demo$N.rs" "$place"
export CARGO_NET_OFFLINE=true
echo "== (1) demo on unchanged tree"
if $runcmd >/tmp/confirm_$P$N.a.log 2>&1; then echo "demo passes on unchanged tree: OK"; else echo "demo FAILS on unchanged tree: BAD"; tail -20 /tmp/confirm_$P$N.a.log; fi
echo "== (2) patch applied"
git apply "$OUT/patch$N.diff" || { echo "patch does not apply"; exit 2; }
if $runcmd >/tmp/confirm_$P$N.b.log 2>&1; then echo "demo passes WITH patch: BAD"; else echo "demo fails with patch: OK"; grep -E "panicked|assert" /tmp/confirm_$P$N.b.log | head -3; fi
rm -f "$place"
out=$(cargo test --workspace --no-fail-fast --offline 2>&1)
bad=$(echo "$out" | grep -E "^test .* FAILED" | grep -v "^test result" | grep -v test_golden_pcap_snapshots)
passed=$(echo "$out" | grep "^test result" | sed -E 's/.* ([0-9]+) passed.*/\1/' | paste -sd+ | bc)
echo "suite with patch: passed=$passed other-failures: [${bad}]"
echo "$out" | grep -E "^error(\[|:)" | head -3
git checkout -q -- . ; git clean -fdq -e target
rm -f /tmp/confirm_$P$N.*.log
