//! C03 / D24: option layout stops at the end-of-options marker (p0f: `eol+n`, n = padding bytes).
use huginn_net_db::tcp::TcpOption;
use huginn_net_tcp::tcp_process::process_tcp_ipv4;
use huginn_net_tcp::uptime::{ConnectionKey, TcpTimestamp};
use pnet::packet::ipv4::Ipv4Packet;
use ttl_cache::TtlCache;

fn syn_with_options(opts: &[u8]) -> Vec<u8> {
    let total = 40 + opts.len();
    let mut p = vec![0u8; total];
    p[0] = 0x45;
    p[3] = total as u8;
    p[6] = 0x40;
    p[8] = 64;
    p[9] = 6;
    p[12..16].copy_from_slice(&[10, 0, 0, 1]);
    p[16..20].copy_from_slice(&[10, 0, 0, 2]);
    p[20..22].copy_from_slice(&40000u16.to_be_bytes());
    p[22..24].copy_from_slice(&80u16.to_be_bytes());
    p[27] = 1;
    p[32] = (((20 + opts.len()) / 4) as u8) << 4;
    p[33] = 0x02;
    p[34] = 0x20;
    p[40..].copy_from_slice(opts);
    p
}

#[test]
fn layout_ends_at_eol_with_padding_count() {
    // mss(4) sok(2) eol + 1 byte of padding
    let frame = syn_with_options(&[2, 4, 5, 180, 4, 2, 0, 0]);
    let mut table: TtlCache<ConnectionKey, TcpTimestamp> = TtlCache::new(8);
    let ip = Ipv4Packet::new(&frame).unwrap();
    let out = process_tcp_ipv4(&ip, &mut table).unwrap();
    let sig = out.tcp_request.unwrap();
    assert_eq!(sig.matching.olayout, vec![TcpOption::Mss, TcpOption::Sok, TcpOption::Eol(1)]);
}
