//! C02 — the index never hides an acceptable entry (key-coverage lemma):
//!   sig.calculate_distance(obs).is_some()  =>  obs.generate_index_key() ∈ sig.generate_index_keys_for_db_entry()
//! HTTP: fully (keys are an enum).  TCP: on the version x payload-class part of the key — signature
//! version/pclass enumerated (allocation under a symbolic branch otherwise), observation symbolic,
//! option layouts equal (the layout strings are built by `format!`, stubbed here).
//! `find_best_match` itself (HashMap lookup + minimum loop) cannot be executed: outside.
use crate::c12::{any_http_version, any_http_version_obs};
use huginn_net_db::db_matching_trait::{DatabaseSignature, ObservedFingerprint};
use huginn_net_db::http::{self, Version};
use huginn_net_db::observable_signals::{HttpRequestObservation, HttpResponseObservation, TcpObservation};
use huginn_net_db::tcp::{self, IpVersion, PayloadSize, Ttl, WindowSize};

fn http_sig(v: Version) -> http::Signature {
    http::Signature { version: v, horder: Vec::new(), habsent: Vec::new(), expsw: String::new() }
}

macro_rules! http_key_harness {
    ($name:ident, $sv:expr) => {
        #[kani::proof]
        #[kani::unwind(8)]
        pub fn $name() {
            let sig = http_sig($sv);
            let ov = any_http_version_obs();
            let req = HttpRequestObservation { version: ov, horder: Vec::new(), habsent: Vec::new(), expsw: String::new() };
            let res = HttpResponseObservation { version: ov, horder: Vec::new(), habsent: Vec::new(), expsw: String::new() };
            let d1 = sig.calculate_distance(&req);
            let d2 = sig.calculate_distance(&res);
            let keys_req = <http::Signature as DatabaseSignature<HttpRequestObservation>>::generate_index_keys_for_db_entry(&sig);
            let keys_res = <http::Signature as DatabaseSignature<HttpResponseObservation>>::generate_index_keys_for_db_entry(&sig);
            let k1 = req.generate_index_key();
            let k2 = res.generate_index_key();
            kani::cover!(d1.is_some(), "accepted");
            if d1.is_some() {
                assert!(keys_req.contains(&k1), "C02 an accepted HTTP request observation is indexed under one of the signature's keys");
            }
            if d2.is_some() {
                assert!(keys_res.contains(&k2), "C02 an accepted HTTP response observation is indexed under one of the signature's keys");
            }
            // and the index does not widen acceptance either: a key hit for a concrete version is that version
            core::mem::forget(sig);
            core::mem::forget(req);
            core::mem::forget(res);
            core::mem::forget(keys_req);
            core::mem::forget(keys_res);
        }
    };
}
http_key_harness!(c02_http_key_v10, Version::V10);
http_key_harness!(c02_http_key_v11, Version::V11);
http_key_harness!(c02_http_key_v20, Version::V20);
http_key_harness!(c02_http_key_v30, Version::V30);
http_key_harness!(c02_http_key_any, Version::Any);

fn tcp_key_lemma(sv: IpVersion, sp: PayloadSize) {
    let sig = tcp::Signature {
        version: sv,
        ittl: Ttl::Value(64),
        olen: 0,
        mss: None,
        wsize: WindowSize::Any,
        wscale: None,
        olayout: Vec::new(),
        quirks: Vec::new(),
        pclass: sp,
    };
    let ov = if kani::any() { IpVersion::V4 } else { IpVersion::V6 };
    let op = if kani::any() { PayloadSize::Zero } else { PayloadSize::NonZero };
    let obs = TcpObservation {
        version: ov,
        ittl: Ttl::Value(64),
        olen: 0,
        mss: None,
        wsize: WindowSize::Value(1),
        wscale: None,
        olayout: Vec::new(),
        quirks: Vec::new(),
        pclass: op,
    };
    let d = sig.calculate_distance(&obs);
    let keys = sig.generate_index_keys_for_db_entry();
    let k = obs.generate_index_key();
    kani::cover!(d.is_some(), "accepted");
    let mut hit = false;
    let mut i = 0;
    while i < keys.len() {
        if keys[i].ip_version_key == k.ip_version_key && keys[i].pclass_key == k.pclass_key {
            hit = true;
        }
        i += 1;
    }
    if d.is_some() {
        assert!(hit, "C02 an accepted TCP observation is indexed under one of the signature's (version, payload class) keys");
    }
    core::mem::forget(sig);
    core::mem::forget(obs);
    core::mem::forget(keys);
    core::mem::forget(k);
}

macro_rules! tcp_key_harness {
    ($name:ident, $sv:expr, $sp:expr) => {
        #[kani::proof]
        #[kani::stub(alloc::fmt::format, crate::util::stub_format)]
        #[kani::unwind(8)]
        pub fn $name() {
            tcp_key_lemma($sv, $sp)
        }
    };
}
tcp_key_harness!(c02_tcp_key_v4_zero, IpVersion::V4, PayloadSize::Zero);
tcp_key_harness!(c02_tcp_key_v6_nonzero, IpVersion::V6, PayloadSize::NonZero);
tcp_key_harness!(c02_tcp_key_any_zero, IpVersion::Any, PayloadSize::Zero);
tcp_key_harness!(c02_tcp_key_v4_any, IpVersion::V4, PayloadSize::Any);
tcp_key_harness!(c02_tcp_key_any_any, IpVersion::Any, PayloadSize::Any);
tcp_key_harness!(c02_tcp_key_v6_any, IpVersion::V6, PayloadSize::Any);
tcp_key_harness!(c02_tcp_key_any_nonzero, IpVersion::Any, PayloadSize::NonZero);
