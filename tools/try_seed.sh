#!/bin/bash
# try_seed.sh <patch.diff> <PROP> [extra check args]: apply a seeded change to /repo, run the check, undo
PATCH=$1; P=$2; shift 2
cd /repo && git status --porcelain --untracked-files=no | grep -q . && { echo "/repo dirty"; exit 2; }
git -C /repo apply "$PATCH" || exit 2
cd /verif && ./check $P --no-evidence "$@" > /tmp/try_seed.log 2>&1; rc=$?
git -C /repo checkout -- .
grep -E "VIOLATION|TROUBLE|KNOWN-FINDING: property=\S+ \S+ " /tmp/try_seed.log | cut -c1-220
echo "exit=$rc"
