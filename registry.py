"""Harness registry: which #[kani::proof] harnesses decide which property, in which tier,
with which bound.  Read by ./check; kept next to the harness sources in kani/src/cNN.rs."""

CRATES3 = ["tcp", "http", "tls"]


def H(name, tier="quick", bound="", asserts="", **kw):
    d = {"name": name, "tier": tier, "bound": bound, "asserts": asserts}
    d.update(kw)
    return d


PROPERTIES = {}
GENERATORS = {}

# ------------------------------------------------------------------------------------------ C14
_c14 = []
_port_shapes = ["0000", "1000", "0100", "0010", "0001", "1111", "2200", "2010", "0022"]
_ip_shapes = ["00", "10", "01", "21"]
_cfg = ["000", "100", "010", "001", "110", "101", "011", "111"]
for i, c in enumerate(CRATES3):
    t = "quick" if c == "tcp" else "thorough"
    for s in _port_shapes:
        _c14.append(H(f"c14::{c}::c14_port_{s}", "quick" if (c == "tcp" or s in ("1111", "0010")) else "thorough",
                      f"PortFilter via builder: {s[0]} src ports, {s[1]} dst ports, {s[2]} src Range<u16>, {s[3]} dst Range<u16>; all values, any_port, both endpoint ports symbolic",
                      "matches() == oracle; FilterConfig(port only).should_process == rule, both modes"))
    for s in _ip_shapes:
        _c14.append(H(f"c14::{c}::c14_ip_{s}", t if s != "10" else "quick",
                      f"IpFilter: {s[0]} IPv4 + {s[1]} IPv6 addresses, side flags, endpoints (v4 pair or v6 pair) symbolic",
                      "matches() == oracle; config(ip only) == rule"))
        _c14.append(H(f"c14::{c}::c14_net_{s}", t if s != "10" else "quick",
                      f"SubnetFilter: {s[0]} Ipv4Network::new(any addr, 0..=32) + {s[1]} Ipv6Network::new(any addr, 0..=128), side flags, endpoints symbolic",
                      "matches() == CIDR oracle; config(subnet only) == rule"))
    for s in _cfg:
        _c14.append(H(f"c14::{c}::c14_cfg_{s}", "quick" if (c == "tcp" or s == "111") else "thorough",
                      f"FilterConfig presence pattern port/ip/subnet={s}, each present sub-filter with 1 element per list (IPv4 list elements; endpoints v4 or v6), mode and endpoints symbolic",
                      "should_process == documented combination rule"))
    for s in ["011", "111"]:
        _c14.append(H(f"c14::{c}::c14_cfg6_{s}", "thorough",
                      f"FilterConfig presence pattern {s} with IPv6 list elements (1 address, 1 network), endpoints symbolic",
                      "should_process == documented combination rule", timeout_s=3000, mem_gb=24))
PROPERTIES["C14"] = {
    "harnesses": _c14,
    "explanation": "Bounded model checking of the real filter.rs of all three crates: every harness builds a "
                   "filter configuration of a fixed shape with all values symbolic, calls the real "
                   "matches()/should_process() and asserts equality with an independent 40-line oracle of the "
                   "documented rule; CBMC decides it for all values at once.",
    "functions": ["{tcp,http,tls}::filter::PortFilter::{new,source,destination,source_list,destination_list,source_range,destination_range,any_port,matches}",
                  "IpFilter::{new,source_only,destination_only,matches}", "SubnetFilter::{new,source_only,destination_only,matches}",
                  "FilterConfig::{new,mode,with_port_filter,with_ip_filter,with_subnet_filter,should_process}",
                  "ipnetwork::Ipv4Network::{new,contains}", "ipnetwork::Ipv6Network::{new,contains}"],
    "bounds": "lists of <= 2 ports, <= 2 ranges per side, <= 2 IPv4 + 1 IPv6 addresses, <= 2 IPv4 + 1 IPv6 networks; unwind 20",
    "outside": "longer lists; the string builders IpFilter::allow/SubnetFilter::allow (str::parse); mixed-family endpoint pairs",
    "assumptions": ["E1 tracing stub (no subscriber)", "prefix lengths assumed within 0..=32 / 0..=128 (Ipv*Network::new rejects others)"],
}

# ------------------------------------------------------------------------------------------ C12
_c12 = [
    H("c12::c12_ttl_pairs", "quick", "all 4x4 TTL form pairs x all u8 parameters",
      "distance in {None,0,2}; 0 only for equal initial TTL of the same class; bad vs good incomparable; defined pairs exact"),
    H("c12::c12_ttl_hops_standard", "quick", "initial TTL in {32,64,128,255} x hops 0..=30, through the real calculate_ttl",
      "distance to Value(initial) == 0"),
    H("c12::c12_ttl_hops_nonstandard", "quick", "every other initial TTL x hops 0..=30 (known finding D10)",
      "distance to Value(initial) == 0"),
    H("c12::c12_window_pairs", "quick", "all 5x5 window form pairs x all parameters x mss presence/value",
      "wildcard 0; same form 0/2; raw window vs mss*n is 0 iff window == n*mss; other forms never 0"),
    H("c12::c12_version_pclass", "quick", "all IP version and payload class pairs", "decisive; wildcard accepts"),
    H("c12::c12_tcp_sum_scalars", "quick", "tcp::Signature x TcpObservation, every scalar field symbolic, empty layouts",
      "calculate_distance == sum of per-field distances, None on decisive mismatch", timeout_s=1200),
    H("c12::c12_tcp_layout_quirks_decisive", "quick", "2-element option layouts and quirk lists, all elements symbolic",
      "Some(0) iff lists equal else None"),
    H("c12::c12_tcp_layout_length_decisive", "quick", "lists differing in length by one", "None"),
    H("c12::c12_score_tcp", "quick", "all pairs of u32 distances", "range, monotone, 1.0 iff 0"),
    H("c12::c12_score_http", "quick", "all pairs of u32 distances", "range, monotone, 1.0 iff 0"),
    H("c12::c12_score_via_signature", "quick", "all u32 distances through DatabaseSignature::get_quality_score", "score law"),
]
for s in ["111", "011", "101", "110", "001", "100", "010", "000"]:
    _c12.append(H(f"c12::c12_http_instance_{s}", "quick" if s in ("111", "101", "000") else "thorough",
                  f"3-header signature, symbolic optional flags, observation keeps headers {s} (dropped ones assumed optional)",
                  "distance_header == Some(0)"))
for e in [0, 2, 3, 5, 6, 8, 9, 10]:
    _c12.append(H(f"c12::c12_http_band_e{e}", "quick" if e in (0, 3, 9, 10) else "thorough",
                  f"3-header signature with symbolic optional flags vs {e} foreign headers",
                  "distance_header == band(required missing + unexpected)"))
_c12 += [
    H("c12::c12_http_value_change", "quick", "changed values on required/optional headers at the band edge", "band(errors)"),
    H("c12::c12_http_signature_with_optional", "quick", "whole http::Signature, version pair symbolic, optional header present",
      "instance => Some(0); version decisive; wildcard accepts"),
    H("c12::c12_http_signature_without_optional", "quick", "same, optional header absent", "same"),
    H("c12::c12_http_expsw_contains", "quick", "software string 'nginx/1.18.0' vs token 'nginx/'", "Some(0)"),
    H("c12::c12_http_expsw_equal", "quick", "software string == token", "Some(0)"),
    H("c12::c12_http_expsw_other", "quick", "software string 'Apache' vs token 'nginx/'", "Some(3)"),
    H("c12::c12_http_expsw_substring_of_token", "quick", "software string 'ngin' (substring OF the token)", "Some(3)"),
]
PROPERTIES["C12"] = {
    "harnesses": _c12,
    "explanation": "Bounded model checking of the real distance functions of huginn-net-db: per-field distance laws over "
                   "all form pairs and parameter values, the sum structure of tcp calculate_distance with every scalar "
                   "symbolic, decisiveness of layouts/quirks with symbolic elements, both score tables over all 2^32 "
                   "distances, and the HTTP header-list kernel on concrete header lists with symbolic optional flags.",
    "functions": ["tcp::Ttl::distance_ttl", "tcp::WindowSize::distance_window_size", "tcp::IpVersion::distance_ip_version",
                  "tcp::PayloadSize::distance_payload_size", "<tcp::Signature as DatabaseSignature<TcpObservation>>::calculate_distance",
                  "TcpMatchQuality::distance_to_score", "HttpMatchQuality::distance_to_score", "get_quality_score",
                  "HttpDistance::distance_header", "<http::Signature as DatabaseSignature<Http{Request,Response}Observation>>::calculate_distance (distance_ip_version, distance_horder, distance_habsent, distance_expsw)",
                  "huginn_net_tcp::ttl::calculate_ttl"],
    "bounds": "TCP: all values of all scalar fields; option/quirk lists of length <= 2. HTTP: signature lists of 3 concrete headers, "
              "observed lists of <= 10 concrete headers, optional flags and versions symbolic; software strings: 4 concrete cases",
    "outside": "longer lists; header names/values as symbolic strings; greedy alignment with foreign headers in the middle of the list",
    "assumptions": ["E1 tracing stub", "observations carry V4/V6 and Zero/NonZero only (what the analyzers emit)"],
}
