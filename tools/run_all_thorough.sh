#!/bin/bash
cd /verif
for p in "$@"; do
  s=$(date +%s)
  ./check $p --tier thorough > logs/thorough_$p.out 2>&1; rc=$?
  echo "$p rc=$rc $(( $(date +%s) - s ))s $(grep -c 'KNOWN-FINDING' logs/thorough_$p.out) known $(grep -c 'VIOLATION\|TROUBLE' logs/thorough_$p.out) bad"
done
