"""Harness registry: which #[kani::proof] harnesses decide which property, in which tier,
with which bound.  Read by ./check; kept next to the harness sources in kani/src/cNN.rs."""

CRATES3 = ["tcp", "http", "tls"]


def H(name, tier="quick", bound="", asserts="", **kw):
    d = {"name": name, "tier": tier, "bound": bound, "asserts": asserts}
    d.update(kw)
    return d


PROPERTIES = {}
GENERATORS = {}

# ------------------------------------------------------------------------------------------ C14
_c14 = []
_port_shapes = ["0000", "1000", "0100", "0010", "0001", "1111", "2200", "2010", "0022"]
_ip_shapes = ["00", "10", "01", "21"]
_cfg = ["000", "100", "010", "001", "110", "101", "011", "111"]
for i, c in enumerate(CRATES3):
    t = "quick" if c == "tcp" else "thorough"
    for s in _port_shapes:
        _c14.append(H(f"c14::{c}::c14_port_{s}", "quick" if (c == "tcp" or s in ("1111", "0010")) else "thorough",
                      f"PortFilter via builder: {s[0]} src ports, {s[1]} dst ports, {s[2]} src Range<u16>, {s[3]} dst Range<u16>; all values, any_port, both endpoint ports symbolic",
                      "matches() == oracle; FilterConfig(port only).should_process == rule, both modes"))
    for s in _ip_shapes:
        _c14.append(H(f"c14::{c}::c14_ip_{s}", t if s != "10" else "quick",
                      f"IpFilter: {s[0]} IPv4 + {s[1]} IPv6 addresses, side flags, endpoints (v4 pair or v6 pair) symbolic",
                      "matches() == oracle; config(ip only) == rule"))
        _c14.append(H(f"c14::{c}::c14_net_{s}", t if s != "10" else "quick",
                      f"SubnetFilter: {s[0]} Ipv4Network::new(any addr, 0..=32) + {s[1]} Ipv6Network::new(any addr, 0..=128), side flags, endpoints symbolic",
                      "matches() == CIDR oracle; config(subnet only) == rule"))
    for s in ["011", "111"]:
        _c14.append(H(f"c14::{c}::c14_cfgmix_{s}", "thorough",
                      f"FilterConfig presence pattern port/ip/subnet={s}, 1 IPv4 element per list, endpoints of every family combination (v4/v6 and v6/v4 too), mode and ports symbolic",
                      "should_process == documented combination rule"))
    for s in ["3300", "0033", "2222"]:
        _c14.append(H(f"c14::{c}::c14_port_{s}", "thorough",
                      f"PortFilter via builder: {s[0]} src ports, {s[1]} dst ports, {s[2]} src Range<u16>, {s[3]} dst Range<u16>; all values, any_port, both endpoint ports symbolic",
                      "matches() == oracle; FilterConfig(port only).should_process == rule, both modes"))
    for k, what in (("ip", "IpFilter"), ("net", "SubnetFilter")):
        _c14.append(H(f"c14::{c}::c14_{k}mix_11", "quick" if c == "tcp" else "thorough",
                      f"{what}: 1 IPv4 + 1 IPv6 element, side flags, endpoints of every family combination (v4/v4, v4/v6, v6/v4, v6/v6) symbolic",
                      "matches() == oracle (each endpoint judged by the list of its own family); config == rule"))
    for s in _cfg:
        _c14.append(H(f"c14::{c}::c14_cfg_{s}", "quick" if (c == "tcp" or s == "111") else "thorough",
                      f"FilterConfig presence pattern port/ip/subnet={s}, each present sub-filter with 1 element per list (IPv4 list elements; endpoints v4 or v6), mode and endpoints symbolic",
                      "should_process == documented combination rule"))
    for s in ["011", "111"]:
        _c14.append(H(f"c14::{c}::c14_cfg6_{s}", "thorough",
                      f"FilterConfig presence pattern {s} with IPv6 list elements (1 address, 1 network), endpoints symbolic",
                      "should_process == documented combination rule", timeout_s=3000, mem_gb=24))
PROPERTIES["C14"] = {
    "harnesses": _c14,
    "explanation": "Bounded model checking of the real filter.rs of all three crates: every harness builds a "
                   "filter configuration of a fixed shape with all values symbolic, calls the real "
                   "matches()/should_process() and asserts equality with an independent 40-line oracle of the "
                   "documented rule; CBMC decides it for all values at once.",
    "functions": ["{tcp,http,tls}::filter::PortFilter::{new,source,destination,source_list,destination_list,source_range,destination_range,any_port,matches}",
                  "IpFilter::{new,source_only,destination_only,matches}", "SubnetFilter::{new,source_only,destination_only,matches}",
                  "FilterConfig::{new,mode,with_port_filter,with_ip_filter,with_subnet_filter,should_process}",
                  "ipnetwork::Ipv4Network::{new,contains}", "ipnetwork::Ipv6Network::{new,contains}"],
    "bounds": "lists of <= 2 ports, <= 2 ranges per side (thorough: <= 3 ports or <= 3 ranges per side, 2+2+2+2 combined), <= 2 IPv4 + 1 IPv6 addresses, <= 2 IPv4 + 1 IPv6 networks; unwind 20",
    "outside": "longer lists; the string builders IpFilter::allow/SubnetFilter::allow (str::parse); mixed-family endpoint pairs with more than 1+1 list elements",
    "assumptions": ["E1 tracing stub (no subscriber)", "prefix lengths assumed within 0..=32 / 0..=128 (Ipv*Network::new rejects others)"],
}

# ------------------------------------------------------------------------------------------ C12
_c12 = [
    H("c12::c12_ttl_pairs", "quick", "all 4x4 TTL form pairs x all u8 parameters",
      "distance in {None,0,2}; 0 only for equal initial TTL of the same class; bad vs good incomparable; defined pairs exact"),
    H("c12::c12_ttl_hops_standard", "quick", "initial TTL in {32,64,128,255} x hops 0..=30, through the real calculate_ttl",
      "distance to Value(initial) == 0"),
    H("c12::c12_ttl_hops_nonstandard", "quick", "every other initial TTL x hops 0..=30 (known finding D10)",
      "distance to Value(initial) == 0"),
    H("c12::c12_window_pairs", "quick", "all 5x5 window form pairs x all parameters x mss presence/value",
      "wildcard 0; same form 0/2; raw window vs mss*n is 0 iff window == n*mss; other forms never 0"),
    H("c12::c12_version_pclass", "quick", "all IP version and payload class pairs", "decisive; wildcard accepts"),
    H("c12::c12_tcp_sum_scalars", "quick", "tcp::Signature x TcpObservation, every scalar field symbolic, empty layouts",
      "calculate_distance == sum of per-field distances, None on decisive mismatch", timeout_s=1200),
    H("c12::c12_tcp_layout_quirks_decisive", "quick", "2-element option layouts and quirk lists, all elements symbolic",
      "Some(0) iff lists equal else None"),
    H("c12::c12_tcp_layout_length_decisive", "quick", "lists differing in length by one", "None"),
    H("c12::c12_score_tcp", "quick", "all pairs of u32 distances", "range, monotone, 1.0 iff 0"),
    H("c12::c12_score_http", "quick", "all pairs of u32 distances", "range, monotone, 1.0 iff 0"),
    H("c12::c12_score_via_signature", "quick", "all u32 distances through DatabaseSignature::get_quality_score", "score law"),
]
for s in ["111", "011", "101", "110", "001", "100", "010", "000"]:
    _c12.append(H(f"c12::c12_http_instance_{s}", "quick" if s in ("111", "101", "000") else "thorough",
                  f"3-header signature, symbolic optional flags, observation keeps headers {s} (dropped ones assumed optional)",
                  "distance_header == Some(0)"))
for e in [0, 2, 3, 5, 6, 8, 9, 10]:
    _c12.append(H(f"c12::c12_http_band_e{e}", "quick" if e in (0, 3, 9, 10) else "thorough",
                  f"3-header signature with symbolic optional flags vs {e} foreign headers",
                  "distance_header == band(required missing + unexpected)"))
_c12 += [
    H("c12::c12_http_value_change", "quick", "changed values on required/optional headers at the band edge", "band(errors)"),
    H("c12::c12_http_signature_with_optional", "quick", "whole http::Signature, version pair symbolic, optional header present",
      "instance => Some(0); version decisive; wildcard accepts"),
    H("c12::c12_http_signature_without_optional", "quick", "same, optional header absent", "same"),
    H("c12::c12_http_expsw_contains", "quick", "software string 'nginx/1.18.0' vs token 'nginx/'", "Some(0)"),
    H("c12::c12_http_expsw_equal", "quick", "software string == token", "Some(0)"),
    H("c12::c12_http_expsw_other", "quick", "software string 'Apache' vs token 'nginx/'", "Some(3)"),
    H("c12::c12_http_expsw_substring_of_token", "quick", "software string 'ngin' (substring OF the token)", "Some(3)"),
]
PROPERTIES["C12"] = {
    "harnesses": _c12,
    "explanation": "Bounded model checking of the real distance functions of huginn-net-db: per-field distance laws over "
                   "all form pairs and parameter values, the sum structure of tcp calculate_distance with every scalar "
                   "symbolic, decisiveness of layouts/quirks with symbolic elements, both score tables over all 2^32 "
                   "distances, and the HTTP header-list kernel on concrete header lists with symbolic optional flags.",
    "functions": ["tcp::Ttl::distance_ttl", "tcp::WindowSize::distance_window_size", "tcp::IpVersion::distance_ip_version",
                  "tcp::PayloadSize::distance_payload_size", "<tcp::Signature as DatabaseSignature<TcpObservation>>::calculate_distance",
                  "TcpMatchQuality::distance_to_score", "HttpMatchQuality::distance_to_score", "get_quality_score",
                  "HttpDistance::distance_header", "<http::Signature as DatabaseSignature<Http{Request,Response}Observation>>::calculate_distance (distance_ip_version, distance_horder, distance_habsent, distance_expsw)",
                  "huginn_net_tcp::ttl::calculate_ttl"],
    "bounds": "TCP: all values of all scalar fields; option/quirk lists of length <= 2. HTTP: signature lists of 3 concrete headers, "
              "observed lists of <= 10 concrete headers, optional flags and versions symbolic; software strings: 4 concrete cases",
    "outside": "longer lists; header names/values as symbolic strings; greedy alignment with foreign headers in the middle of the list",
    "assumptions": ["E1 tracing stub", "observations carry V4/V6 and Zero/NonZero only (what the analyzers emit)"],
}

# ------------------------------------------------------------------------------------------ C19
_c19 = [
    H("c19::c19_freq_guards", "quick", "all (ts_ref, ts_cur) in u32^2, reference arrival < 2^44 ms, interval 0..=700000 ms, restricted to pairs the integer guards reject",
      "Err (interval outside 25ms..600s, < 5 ticks, backward jump > 15000 ticks within 100 ms)"),
    H("c19::c19_frequency_time_reversal", "quick", "all arrival pairs with t_cur < t_ref", "Err"),
]
_q_ms = ["25", "99", "100", "1000", "30001", "600000", "600001"]
for ms in ["24", "25", "26", "99", "100", "101", "1000", "1001", "7777", "30000", "30001", "333333", "599999", "600000", "600001"]:
    _c19.append(H(f"c19::c19_freq_rate_ms_{ms}", "quick" if ms in _q_ms else "thorough",
                  f"all (ts_ref, ts_cur) in u32^2 at interval {ms} ms",
                  "Ok iff guards pass and ms <= ticks*1000 <= 1500*ms (integer oracle); value == ticks*1000/ms"))
_c19 += [
    H("c19::c19_rounding_grid_1_to_89", "quick", "raw = ticks*1000/ms for all valid (ticks, ms) with raw in [1, 89.99]", "final frequency on documented grid"),
    H("c19::c19_rounding_grid_90_to_110", "quick", "raw in [90, 110]", "== 100"),
    H("c19::c19_rounding_grid_110_to_899", "quick", "raw in (110, 900)", "p0f ranges / multiples of 100 within 10 %"),
    H("c19::c19_rounding_grid_900_to_1100", "quick", "raw in [900, 1100]", "== 1000"),
    H("c19::c19_rounding_grid_1100_to_1500", "quick", "raw in (1100, 1500]", "p0f ranges / multiples of 100 within 10 %"),
    H("c19::c19_label_rule", "quick", "all flag bytes x all port pairs", "handshake flags, else src>1024 && dst<=1024"),
]
for f in ["2", "7", "10", "15", "50", "60", "100", "150", "250", "500", "600", "1000", "1100", "1500"]:
    _c19.append(H(f"c19::c19_uptime_split_f{f}", "quick" if f in ("10", "100", "250", "1000", "1500") else "thorough",
                  f"all ts in u32 at {f} Hz", "days == floor(ts/f/86400); hours<24; min<60; wrap == floor(2^32/(f*86400)); freq"))
for ms in ["10", "40", "1000", "29000", "31000", "600000", "600001"]:
    for side in ["cli", "srv"]:
        _c19.append(H(f"c19::c19_state_two_ms_{ms}_{side}", "quick" if (ms in ("10", "1000", "31000", "600001") and side == "cli") or (ms == "1000") else "thorough",
                      f"two segments of one endpoint {ms} ms apart, both TSvals symbolic, side {side}; 4-slot table model",
                      "first stores; second reports iff valid pair, in the sender's slot only, computed from the later timestamp"))
for n in ["10_100", "1000_1000", "10_29000"]:
    for side in ["cli", "srv"]:
        _c19.append(H(f"c19::c19_state_bad_{n}_{side}", "quick" if (n == "1000_1000" or side == "cli") else "thorough",
                      f"three segments at intervals {n} ms, first pair out of range, all TSvals symbolic, side {side}",
                      "third yields nothing (not re-evaluated while the entry lives)"))
for n in ["same_tuple", "reversed_tuple"]:
    for side in ["cli", "srv"]:
        _c19.append(H(f"c19::c19_state_dir_{n}_{side}", "quick",
                      f"segment of the other direction interleaved ({n}), all TSvals symbolic, side {side}",
                      "own measurement unaffected; other direction stores only"))
PROPERTIES["C19"] = {
    "harnesses": _c19,
    "explanation": "Bounded model checking of the real uptime.rs: the frequency kernel over all timestamp pairs and intervals "
                   "against an integer (cross-multiplied) oracle, the rounding chain over all raw rates of the form ticks*1000/ms, "
                   "the uptime split over all timestamps x grid frequencies (f64 /, %, casts decided by CBMC's float encoding), "
                   "the labelling rule over all flags/ports, and the check_ts_tcp state machine for 2-3 segments with symbolic "
                   "times and timestamps on the 4-slot connection-table model.",
    "functions": ["uptime::calculate_frequency_p0f_style", "uptime::guess_frequency", "uptime::round_frequency_p0f_style",
                  "uptime::calculate_uptime_from_frequency", "uptime::check_ts_tcp", "uptime::get_unix_time_ms (hook clock)",
                  "tcp_process::{from_client, from_server, is_packet_from_client}"],
    "bounds": "frequency guards: all inputs; rate limits and state machine: all timestamp values at 15 (7 quick) concrete intervals around every boundary; "
              "uptime split: all timestamps at 14 (5 quick) grid frequencies; <= 3 segments per endpoint, <= 2 endpoints in the table",
    "outside": "intervals other than the enumerated ones for the f64 rate test (symbolic interval: f64 division vs integer oracle not decided in 25 min); "
               "exact hours/minutes values (CBMC's f64 % is inexact - spurious counterexamples); longer histories; table eviction; real ttl_cache/Instant (modelled, E3); "
               "uptime kernel stubbed by an argument recorder inside the state-machine harnesses",
    "assumptions": ["E1 tracing stub", "E3 ttl_cache model (4 slots, harness clock)", "E6 alloc::fmt::format stubbed (error strings not read)",
                    "clock: verif-hooks set_clock_ms drives get_unix_time_ms; model clock set to the same instant"],
}

# ------------------------------------------------------------------------------------------ C15
_c15 = []
for c in CRATES3:
    t = "quick" if c == "tcp" else "thorough"
    _c15.append(H(f"c15::{c}::c15_agree_v4_64", "quick", "every frame of 0..=64 bytes (Ethernet / raw / NULL framing, IHL 0..15), IPv4 view",
                  "analyzer decodes endpoints e => raw_filter::apply admits under allow-list{e} and rejects under deny-list{e}", timeout_s=900, mem_gb=10))
    _c15.append(H(f"c15::{c}::c15_agree_v4_96", "thorough", "every frame of 60..=96 bytes, IPv4 view (IP options up to 40 bytes behind Ethernet)", "same", timeout_s=3000, mem_gb=24))
    _c15.append(H(f"c15::{c}::c15_agree_v6_84", t, "every frame of 40..=84 bytes, IPv6 view", "same", timeout_s=1500, mem_gb=12))
_c15.append(H("c15::unified::c15_agree_v4_64", "quick", "unified analyzer (its own packet_parser copy + pnet views built in process.rs) vs the TCP crate's raw filter it applies: every frame of 0..=64 bytes, IPv4 view",
              "same lemma", timeout_s=900, mem_gb=10))
_c15.append(H("c15::unified::c15_agree_v6_84", "thorough", "same, every frame of 40..=84 bytes, IPv6 view", "same lemma", timeout_s=1500, mem_gb=12))
PROPERTIES["C15"] = {
    "harnesses": _c15,
    "max_jobs": 4,
    "explanation": "Decoder-agreement lemma by bounded model checking: over every frame up to the bound, the endpoints the analyzer's own "
                   "decoder yields (real parse_packet + pnet Ipv4/Ipv6/Tcp views, as process.rs uses them) are the endpoints the real "
                   "raw_filter::apply decides on, observed through exact allow/deny lists built with the real filter types. Since the filter is "
                   "stateless and is applied first on every per-packet path, this is what commuting reduces to per frame.",
    "functions": ["{tcp,http,tls}::raw_filter::apply (extract_quick_info, try_ethernet, try_raw_ip, try_null_datalink, extract_ipv4_info, extract_ipv6_info)",
                  "{tcp,http,tls}::packet_parser::parse_packet", "huginn_net::packet_parser::parse_packet (unified)", "pnet Ipv4Packet/Ipv6Packet/TcpPacket::{new,payload,get_*}", "FilterConfig::should_process"],
    "bounds": "frames <= 64 bytes quick / <= 96 bytes thorough (IPv4), <= 84 bytes (IPv6); unwind 20",
    "outside": "longer frames (IPv6 behind Ethernet with payload, IPv4 options behind NULL framing above the bound); that the four call sites apply the filter "
               "first and keep no filter-dependent state is read, not solver-checked; worker threads",
    "assumptions": ["E1 tracing stub"],
}

# ------------------------------------------------------------------------------------------ C18
_c18 = [
    H("c18::tcp::c18_tcp_raw_v4", "quick", "two raw IPv4 frames of 60 bytes (IHL symbolic), all bytes symbolic, same decoded source address", "hash_source_ip equal", timeout_s=900),
    H("c18::tcp::c18_tcp_eth_v4", "quick", "two Ethernet+IPv4 frames of 54 bytes", "hash_source_ip equal", timeout_s=900),
    H("c18::tcp::c18_tcp_raw_v6", "thorough", "two raw IPv6 frames of 60 bytes", "hash_source_ip equal", timeout_s=2700),
    H("c18::tcp::c18_tcp_eth_v6", "thorough", "two Ethernet+IPv6 frames of 74 bytes", "hash_source_ip equal", timeout_s=2700),
]
_c18 += [
    H("c18::tcp::c18_tcp_null_v4", "quick", "two NULL/loopback-framed IPv4 frames of 64 bytes (1e 00 xx xx + IPv4), all other bytes symbolic, same decoded source address", "hash_source_ip equal", timeout_s=900),
    H("c18::tcp::c18_tcp_null_v6", "thorough", "two NULL/loopback-framed IPv6 frames of 64 bytes", "hash_source_ip equal", timeout_s=2700),
]
for c in ["tls", "http"]:
    ident = "directed 4-tuple" if c == "tls" else "4-tuple irrespective of direction"
    _c18 += [
        H(f"c18::{c}::c18_valid_index_64", "quick", "every frame of 0..=64 bytes x every worker count (usize, incl. 0)", "index < n (0 when n == 0), no panic"),
        H(f"c18::{c}::c18_raw_v4_n4", "quick", f"two raw IPv4 frames of 60 bytes (IHL symbolic), same {ident}, 4 workers", "same worker, valid index", timeout_s=900),
        H(f"c18::{c}::c18_raw_v4_n3", "thorough", f"same, 3 workers", "same worker, valid index", timeout_s=2700),
        H(f"c18::{c}::c18_eth_v4_n4", "quick", f"two Ethernet+IPv4 frames of 54 bytes, same {ident}, 4 workers", "same worker, valid index", timeout_s=900),
        H(f"c18::{c}::c18_eth_v4_n7", "thorough", f"same, 7 workers", "same worker, valid index", timeout_s=2700),
        H(f"c18::{c}::c18_raw_v6_n4", "thorough", f"two raw IPv6 frames of 60 bytes, same {ident}, 4 workers", "same worker, valid index", timeout_s=2700, mem_gb=24, optional=True),
        H(f"c18::{c}::c18_null_v4_n4", "thorough", f"two NULL/loopback-framed IPv4 frames of 64 bytes, same {ident}, 4 workers", "same worker, valid index", timeout_s=2700, mem_gb=24),
        H(f"c18::{c}::c18_eth_v6_n16", "thorough", f"two Ethernet+IPv6 frames of 74 bytes, same {ident}, 16 workers", "same worker, valid index", timeout_s=2700, mem_gb=24, optional=True),
    ]
PROPERTIES["C18"] = {
    "harnesses": _c18,
    "max_jobs": 6,
    "explanation": "Two-run non-interference by bounded model checking: two frames of a framing skeleton, every other byte symbolic in both, "
                   "that the analyzer's own decoder (real parse_packet + pnet views) maps to the same connection identity must be given the same "
                   "worker by the real hash functions (SipHash encoded by CBMC); plus index validity over all frames and worker counts.",
    "functions": ["tcp::packet_hash::hash_source_ip", "http::packet_hash::hash_flow (hash_ipv4_flow, hash_ipv6_flow, fallback_hash)",
                  "tls::packet_hash::hash_flow", "{tcp,http,tls}::packet_parser::parse_packet", "std DefaultHasher (SipHash-1-3)"],
    "bounds": "frames of 54/60/74 bytes per skeleton (raw/Ethernet x IPv4/IPv6), worker counts 3, 4, 7, 16; valid index: frames <= 64 bytes, every usize count",
    "outside": "the accounting clause (queued/dropped counters, exactly-once analysis under concurrent dispatchers): needs WorkerPool threads and crossbeam channels, "
               "which Kani does not model; longer frames; truncated frames in the two-run harnesses",
    "assumptions": ["E1 tracing stub", "identity defined through the analyzer's decoder; a frame that is both a raw IP packet and an Ethernet frame is excluded from the raw skeletons"],
}

# ------------------------------------------------------------------------------------------ C08 / C11
_steps = [("1", "4"), ("3", "1"), ("3", "5"), ("4", "1"), ("4", "8"), ("5", "1"), ("5", "8"), ("7", "3"), ("9", "8"), ("16", "16")]
_q_steps = {("3", "5"), ("4", "1"), ("5", "8"), ("7", "3"), ("16", "16")}
_c08 = []
for b, d in _steps:
    _c08.append(H(f"c08::c08_step_b{b}_d{d}", "quick" if (b, d) in _q_steps else "thorough",
                  f"reader retaining {b} symbolic bytes (incomplete-record invariant) + one add_bytes of {d} symbolic bytes; all 65536 declared lengths, all record types, parser verdict symbolic",
                  "incomplete: Ok(None), parser not entered, retained == delivered, retained < 5+declared <= 65540; completing: parser entered once with exactly the record, every position equal (symbolic probe)"))
for d in ["1", "4", "5", "12", "32"]:
    _c08.append(H(f"c08::c08_fresh_d{d}", "quick" if d in ("4", "12", "32") else "thorough",
                  f"fresh reader + one add_bytes of {d} symbolic bytes", "same; bytes after the record are not handed to the parser"))
PROPERTIES["C08"] = {
    "harnesses": _c08,
    "explanation": "Inductive step over the real TlsClientHelloReader::add_bytes by bounded model checking: from any reader state that an in-order "
                   "sequence of incomplete segments can leave behind (B retained bytes, constructed with the verif hook), one more segment either "
                   "leaves the record incomplete (no result, nothing lost, parser untouched) or completes it (parser entered exactly once with "
                   "exactly the record bytes, retained ++ new, in order). By induction over the calls this gives segmentation invariance of what "
                   "reaches the ClientHello parser, for every cut position; the parser itself (tls-parser) is replaced by a call recorder.",
    "functions": ["tls_client_hello_reader::TlsClientHelloReader::{new, add_bytes, reset, buffer_len, verif_with_buffer}"],
    "bounds": "retained prefix <= 16 bytes, new segment <= 16 (32 for a fresh reader) bytes; every 5-byte header value",
    "outside": "tls_process::parse_tls_client_hello and everything behind it (tls-parser: stubbed by a recorder), hence 'identical result' only up to 'identical parser input'; "
               "the content of the retained bytes after an *incomplete* step is not read back (only its length) - reading the buffer after the call exhausted memory; "
               "packet level (process_tcp_packet: admission by is_tls_traffic, flow removal), exactly-once over a whole connection, worker variants",
    "assumptions": ["E1 tracing stub", "E6 format stub", "parse_tls_client_hello stubbed: returns Ok(None) or Err (symbolic), never a signature"],
}
_c11 = [h for h in _c08 if "step" in h["name"]] + [
    H("c11::c11_table_cli_1000", "quick", "4 timestamped client segments of one connection 1000 ms apart, all TSvals symbolic", "timestamp table holds exactly 1 entry after every segment"),
    H("c11::c11_table_srv_1000", "quick", "same, server side", "1 entry"),
    H("c11::c11_table_cli_10", "thorough", "same, 10 ms apart (every pair invalid -> marker path)", "1 entry"),
    H("c11::c11_table_two_directions", "quick", "alternating client/server segments of one connection, TSvals symbolic", "exactly 2 entries"),
]
PROPERTIES["C11"] = {
    "harnesses": _c11,
    "explanation": "Bounded memory, for the two stateful objects in reach: (1) TLS reader - the inductive-step harnesses of C08 assert that an incomplete "
                   "handshake record retains fewer than 5 + declared length <= 65540 bytes after any step, which bounds the reader for histories of any length; "
                   "(2) TCP timestamp table - any 4 segments of one endpoint keep exactly one entry per (connection, direction).",
    "functions": ["TlsClientHelloReader::add_bytes", "uptime::check_ts_tcp"],
    "bounds": "reader: as C08; table: 4 segments per endpoint on the 4-slot model",
    "outside": "the HTTP flow table (TcpFlow keeps every payload until a head parses and rebuilds the stream per packet - seen by reading, D9 - needs HttpProcessors/HashMap, not encodable), "
               "work-per-packet bounds, a reader whose first byte is not 0x16 (reachable only through the reader API, not through process_tcp_packet), table capacity/eviction",
    "assumptions": ["E1", "E3 ttl_cache model", "E6", "uptime kernels stubbed in the table harnesses"],
}

# ------------------------------------------------------------------------------------------ C17
_c17 = [H("c17::c17_setting_id_roundtrip", "quick", "all 65536 setting ids", "SettingId::from(id).as_u16() == id; unknown ids stay unknown"),
        H("c17::c17_window_update_payload", "quick", "every payload of 0..=8 bytes", "31-bit big-endian increment, reserved bit cleared; < 4 bytes: none"),
        H("c17::c17_priority_payload", "quick", "every payload of 0..=8 bytes x every stream id", "E bit, 31-bit dependency, weight byte, stream id; < 5 bytes: none")]
for n in ["0", "5", "6", "11", "12", "18", "23", "36"]:
    _c17.append(H(f"c17::c17_settings_payload_{n}", "quick" if n in ("5", "6", "12", "23") else "thorough",
                  f"every SETTINGS payload of {n} bytes", "one parameter per complete pair in wire order, big-endian id/value, partial pair ignored"))
for n in ["s0_wu0_wu0", "s0_wu3_wu0", "s0_wu3_wu5", "wu0_s0_wu0", "s1_s0_wu0", "s0_s0_wu7", "s0_p3_p5", "p0_wu0_s0", "s0_wu1_p1"]:
    _c17.append(H(f"c17::c17_select_{n}", "quick" if n in ("s0_wu3_wu0", "s0_wu3_wu5", "s1_s0_wu0", "s0_p3_p5") else "thorough",
                  f"frame list {n} (type+stream id concrete), every payload byte symbolic",
                  "settings from the first SETTINGS on stream 0; window update = first stream-0 WINDOW_UPDATE or 0; every PRIORITY frame in wire order"))
PROPERTIES["C17"] = {
    "harnesses": _c17,
    "explanation": "Bounded model checking of the three payload decoders of akamai_extractor.rs against the RFC 7540 §6 layouts over every payload of the "
                   "stated sizes, the setting-id mapping over all ids, and the frame-selection half of extract_akamai_fingerprint (hook "
                   "verif_select_fingerprint_parts) on concrete frame lists with symbolic payloads.",
    "functions": ["akamai_extractor::{parse_settings_payload, parse_window_update_payload, parse_priority_payload}",
                  "akamai_extractor::{extract_settings_parameters, extract_window_update, extract_priority_frames} (via hook)", "akamai::SettingId::{from, as_u16}"],
    "bounds": "SETTINGS payloads of 0..36 bytes (8 lengths), WINDOW_UPDATE/PRIORITY payloads <= 8 bytes, frame lists of 3 frames (9 type/stream patterns)",
    "outside": "the S|WU|P|PS string and its SHA-256 (format!/join/sha2), pseudo-header order (HPACK), Http2Parser::parse_frames, the incremental extractor "
               "(Http2FingerprintExtractor: 64 KiB buffer + all of the above) and hence chunk-independence (seed C17-2 is missed by design)",
    "assumptions": ["E1 tracing stub"],
}

# ------------------------------------------------------------------------------------------ C09
_c09 = []
for side, orders in [("cli", ["012", "021", "102", "120", "201", "210"]), ("srv", ["012", "210", "120"])]:
    for o in orders:
        _c09.append(H(f"c09::c09_{side}_{o}_nowrap", "quick" if o in ("012", "210", "120") else "thorough",
                      f"{side}: 3 contiguous segments (2+1+2 symbolic bytes) pushed in arrival order {o}; ISN symbolic over all values whose stream does not wrap",
                      "assembled stream == the 5 bytes in stream order"))
for side, orders in [("cli", ["012", "210", "102"]), ("srv", ["012", "201"])]:
    for o in orders:
        _c09.append(H(f"c09::c09_{side}_{o}_wrap", "quick", f"{side}: same, ISN such that the sequence space wraps inside the 5 bytes", "assembled stream == the 5 bytes in stream order"))
_c09 += [H("c09::c09_gap_cli", "quick", "client: first and third segment present, middle missing, ISN symbolic (known finding D8a)", "assembled length <= 2"),
         H("c09::c09_gap_srv", "quick", "server: same (known finding D8a)", "assembled length <= 2"),
         H("c09::c09_retransmission_cli", "quick", "client: first segment pushed twice (known finding D8b)", "assembled length == 4")]
PROPERTIES["C09"] = {
    "harnesses": _c09,
    "explanation": "Bounded model checking of the reassembly kernel of the HTTP analyzer (TcpFlow segment store + get_full_data, driven through verif hooks that "
                   "store segments exactly as process_tcp_packet does): for every initial sequence number, three contiguous segments with symbolic bytes in "
                   "every arrival order assemble to the stream-order concatenation; gap and retransmission cases.",
    "functions": ["http_process::TcpFlow::{init, get_full_data} via verif_new/verif_push/verif_full_data"],
    "bounds": "3 segments of 2+1+2 bytes; all 2^32 ISNs; all 6 client / 3 server arrival orders",
    "outside": "process_tcp_packet itself (parse after each segment, 'reported at most once', direction attribution, flow removal) needs HttpProcessors (HashMap, HPACK): not encodable; "
               "longer streams and more segments",
    "assumptions": ["E1 tracing stub", "hooks store a segment the way process_tcp_packet does (push of TcpData{sequence, payload})"],
}

# ------------------------------------------------------------------------------------------ C03
_c03 = [
    H("c03::c03_ttl_all", "quick", "all 256 TTLs", "guess_distance / calculate_ttl == p0f rule (next of 32/64/128/255, <= 30 hops)"),
    H("c03::c03_role_predicates", "quick", "all 256 flag bytes", "from_client, from_server, is_valid"),
    H("c03::c03_ipv4_olen", "quick", "all IHL values", "olen == option bytes"),
    H("c03::c03_ipv6_olen", "quick", "every 48-byte IPv6 packet", "olen 0 / 8 / (ext len + 1) * 8"),
    H("c03::c03_flag_shape", "quick", "IPv4 SYN skeleton, symbolic TCP flag byte, seq/ack/urgent zero-or-not, no options",
      "refused iff invalid flags; client signature iff SYN without ACK; server signature iff ACK when SYN; quirk list == oracle in order; layout, pclass, ittl", timeout_s=900),
    H("c03::c03_flag_non_handshake", "quick", "same skeleton, every flag byte without SYN (known finding D4)", "neither signature"),
    H("c03::c03_ipv4_shape", "quick", "symbolic TOS, IP flag bits, ID zero-or-not, TTL", "fragments refused; ecn, 0+, df, id+, id- exactly; ittl", timeout_s=900),
    H("c03::c03_ipv6_shape", "quick", "symbolic traffic class, flow label, hop limit", "flow, ecn exactly; version, olen, ittl"),
    H("c03::c03_mss_window_shape", "quick", "SYN with MSS option: MSS and window symbolic", "mss value; window n*(MSS+40) rendered mtu*n; MTU present", timeout_s=1200),
    H("c03::c03_mtu_opt4", "quick", "SYN with MSS (symbolic) and 4 option bytes (known finding D3)", "MTU == MSS+40"),
    H("c03::c03_mtu_opt12", "quick", "12 option bytes (known finding D3)", "MTU == MSS+40"),
    H("c03::c03_mtu_opt20", "quick", "20 option bytes", "MTU == MSS+40"),
    H("c03::c03_eol_pad0", "quick", "NOP NOP NOP EOL", "layout ends with eol+0"),
    H("c03::c03_eol_pad1", "quick", "NOP NOP EOL + 1 zero byte (known finding D24)", "layout ends with eol+1"),
    H("c03::c03_eol_pad2", "thorough", "5 NOP, EOL + 2 zero bytes (known finding D24)", "layout ends with eol+2"),
]
for n, q in [("mss_4", 1), ("mss_8_short", 0), ("ws_4", 1), ("ws_4_last_byte", 1), ("ws_4_last_byte_len3", 1), ("ws_4_kind_only", 1), ("sok_4", 0), ("sack_12", 0), ("ts_12_syn", 1), ("ts_12_synack", 0), ("ts_8_short", 1), ("unknown_8", 0)]:
    _c03.append(H(f"c03::c03_opt_{n}", "quick" if q else "thorough", f"option {n} in last position behind NOPs, data bytes symbolic (length byte as stated in the harness)",
                  "no panic; kinds in wire order; mss/ws values; exws, ts1-, ts2+ exactly", timeout_s=900))
for n, q in [("mss1460_v4", 1), ("mss1460_v4_ts", 1), ("mss1440_v6", 1), ("mss1220_v6_ts", 1), ("mss1024_v4", 0), ("mss536_v4", 0), ("mss100_v4_ts", 1), ("mss99_v4", 1), ("mss65535_v4", 0), ("mss8961_v6_ts", 0)]:
    _c03.append(H(f"c03::c03_window_{n}", "quick" if q else "thorough", f"detect_win_multiplicator: every window at {n}", "answer sound (mss*n / %n largest modulus / mtu*n / raw) and complete in rule order"))
for n in ["v4_h40", "v4_h40_ts", "v6_h60", "v6_h60_ts", "v4_h0"]:
    _c03.append(H(f"c03::c03_window_{n}", "thorough", f"detect_win_multiplicator: every (window, MSS) pair, {n}", "same", timeout_s=3300, optional=True))
PROPERTIES["C03"] = {
    "harnesses": _c03,
    "explanation": "Bounded model checking of the TCP extractors: scalar kernels over all inputs against the p0f field rules, and the private visit_tcp through the "
                   "public process_tcp_ipv4/ipv6 on frames with a concrete skeleton and one symbolic header group at a time (TCP flags + zero/non-zero fields; "
                   "IP TOS/flags/ID/TTL; IPv6 class/flow/hop limit; one option in last position with symbolic data; MSS value + window).",
    "functions": ["ttl::{calculate_ttl, guess_distance}", "window_size::detect_win_multiplicator", "tcp_process::{from_client, from_server, is_valid, process_tcp_ipv4, process_tcp_ipv6, visit_tcp}",
                  "ip_options::IpOptions::calculate_ipv4_length", "mtu::extract_from_ipv4", "pnet TcpPacket/TcpOptionPacket as compiled"],
    "bounds": "one header group symbolic per harness; option area 4..12 bytes, option under test in last position with a concrete (valid) length byte; 'all (window, MSS)' only in the thorough tier",
    "outside": "option sequences with symbolic kinds/lengths in the middle (a symbolic remainder is re-parsed: > 15 min), malformed length bytes followed by symbolic data, 40-byte option areas, "
               "Display of the observable, matching_by_mtu (needs a Database), IPv6 extension headers, payload class NonZero",
    "assumptions": ["E1 tracing stub", "E3 ttl_cache model", "E6 format stub", "check_ts_tcp stubbed to (None, None) (decided in C19)"],
}

# ------------------------------------------------------------------------------------------ C01
def _pick(prop, names):
    out = []
    for h in PROPERTIES[prop]["harnesses"]:
        if h["name"] in names:
            out.append(dict(h))
    return out

_c01 = []
for m in ["tcp", "http", "tls", "unified"]:
    _c01.append(H(f"c01::{m}::c01_parse_packet_64", "quick" if m in ("tcp", "unified") else "thorough", f"{m}: parse_packet + detect_datalink_format on every buffer of 0..=64 bytes", "returns (no panic/overflow)"))
for m in ["tcp", "http", "tls"]:
    _c01.append(H(f"c01::filter_{m}::c01_raw_filter_64", "quick" if m == "tcp" else "thorough", f"{m}: raw_filter::apply on every buffer of 0..=64 bytes, no sub-filter and a deny port filter", "returns; no sub-filter admits"))
_c01 += [
    H("c01::c01_tcp_hash_source_ip_64", "quick", "hash_source_ip on every buffer of 0..=64 bytes", "returns"),
    H("c01::c01_is_tls_traffic_16", "quick", "is_tls_traffic on every buffer of 0..=16 bytes", "returns; < 5 bytes false"),
    H("c01::c01_http_complete_checks_24", "quick", "has_complete_headers, has_complete_data, looks_like_http2_response on every buffer of 0..=24 bytes", "return"),
    H("c01::c01_http2_parse_frames_18", "quick", "Http2Parser::parse_frames on every buffer of 0..=18 bytes", "returns; frames consume <= bytes given"),
]
_c01 += _pick("C18", {"c18::tls::c18_valid_index_64", "c18::http::c18_valid_index_64"})
_c01 += _pick("C03", {"c03::c03_opt_ws_4_last_byte", "c03::c03_opt_ws_4_kind_only", "c03::c03_opt_ws_4", "c03::c03_opt_ts_8_short", "c03::c03_opt_mss_8_short", "c03::c03_opt_ts_12_syn",
                      "c03::c03_opt_mss_4", "c03::c03_opt_unknown_8", "c03::c03_opt_sack_12", "c03::c03_eol_pad0", "c03::c03_flag_shape", "c03::c03_ipv4_shape", "c03::c03_ipv6_shape"})
_c01 += _pick("C08", {"c08::c08_step_b3_d5", "c08::c08_step_b5_d8", "c08::c08_fresh_d12", "c08::c08_fresh_d32"})
_c01 += _pick("C17", {"c17::c17_settings_payload_23", "c17::c17_window_update_payload", "c17::c17_priority_payload"})
_c01 += _pick("C15", {"c15::tcp::c15_agree_v4_64"})
PROPERTIES["C01"] = {
    "harnesses": _c01,
    "explanation": "Totality (no panic, no overflow, termination within the unwinding bound - Kani's checks are on in every harness) of the byte-level entry layers by "
                   "bounded model checking over every buffer up to the stated size: packet framing x4 crates, pre-parse filter x3, dispatch hashes x3, TLS record "
                   "detection and reader buffering, HTTP completeness probes, the HTTP/2 frame splitter, the Akamai payload decoders, and the TCP header walk in "
                   "the shapes of C03 (which found the WSCALE panic D1).",
    "functions": ["packet_parser::{parse_packet, detect_datalink_format} x4", "raw_filter::apply x3", "packet_hash::{hash_source_ip, hash_flow} x3", "tls_process::is_tls_traffic",
                  "TlsClientHelloReader::add_bytes", "http1_process::has_complete_headers", "http2_process::{has_complete_data, looks_like_http2_response}", "Http2Parser::parse_frames",
                  "akamai_extractor::parse_*_payload", "tcp_process::process_tcp_ipv4/ipv6 (visit_tcp)"],
    "bounds": "buffers <= 64 bytes (framing, filter, hash), <= 24 (HTTP probes), <= 18 (frame splitter); TCP options: one option in last position; reader: <= 16+16 bytes",
    "outside": "Http1Parser, HPACK, tls-parser, Database::from_str (HashMap/strings: not encodable), the 'no poison' clause for the analyzers that sit on them, worker threads, buffers above the bounds, "
               "TCP option sequences with symbolic kinds in the middle",
    "assumptions": ["E1", "E3", "E6", "parse_tls_client_hello and check_ts_tcp stubbed where stated"],
}

# ------------------------------------------------------------------------------------------ C02
_c02 = [H(f"c02::c02_http_key_{v}", "quick", f"http::Signature with version {v}, request and response observation with any of the 4 concrete versions",
          "calculate_distance some => observation key among the signature's keys") for v in ["v10", "v11", "v20", "v30", "any"]]
_c02 += [H(f"c02::c02_tcp_key_{n}", "quick", f"tcp::Signature version/pclass {n}, observation version in {{V4,V6}} x pclass in {{Zero,NonZero}} symbolic, equal (empty) layouts",
           "calculate_distance some => (version, pclass) part of the observation key among the signature's keys")
         for n in ["v4_zero", "v6_nonzero", "any_zero", "v4_any", "any_any", "v6_any", "any_nonzero"]]
PROPERTIES["C02"] = {
    "harnesses": _c02,
    "explanation": "Key-coverage lemma ('the index never hides an acceptable entry') by bounded model checking of the real key generators and distance functions: "
                   "whenever a signature accepts an observation, the observation's index key is among the keys the signature is filed under. HTTP completely "
                   "(all signature versions x all observation versions, request and response); TCP for the version x payload-class part of the key.",
    "functions": ["<http::Signature as DatabaseSignature<_>>::{calculate_distance, generate_index_keys_for_db_entry}", "Http{Request,Response}Observation::generate_index_key",
                  "<tcp::Signature as DatabaseSignature<TcpObservation>>::{calculate_distance, generate_index_keys_for_db_entry}", "TcpObservation::generate_index_key"],
    "bounds": "all version / payload-class combinations; TCP option layouts empty on both sides",
    "outside": "FingerprintCollection::{new, find_best_match}: HashMap index construction and lookup, the minimum loop (first minimum wins, quality of that distance) - "
               "std HashMap is not executable under Kani/CBMC (2 inserts > 25 min); the olayout string part of the TCP key (format!/join; both sides use the same Display); "
               "seeds C02-2 (index construction) is missed by design",
    "assumptions": ["E1", "E6 format stub (layout strings not compared)"],
}

# ------------------------------------------------------------------------------------------ C13
import json as _json, os as _os
# (generated tables: see ensure_generated() in ./check)
_c13 = []
_p = "/verif/kani/src/gen/c13_sigs.json"
if _os.path.exists(_p):
    for i, c in enumerate(_json.load(open(_p))):
        _c13.append(H(c["name"], "quick", "bundled TCP signature class " + c["class"] + " (" + str(len(c["signatures"])) + " signature(s), e.g. " + c["signatures"][0] + "); hops 0..30, MSS/scale/version/pclass/window symbolic where the signature leaves them open",
                      "real calculate_ttl + detect_win_multiplicator render a conforming packet into an observation with distance 0 to the signature", timeout_s=600))
# the rendering half (the header walk produces the layout/quirks/values the signatures list): C03 shapes
_c13 += [dict(h) for h in PROPERTIES["C03"]["harnesses"] if h["name"] in {
    "c03::c03_opt_ws_4", "c03::c03_opt_mss_4", "c03::c03_opt_ts_12_syn", "c03::c03_opt_sok_4", "c03::c03_flag_shape", "c03::c03_ipv4_shape", "c03::c03_mss_window_shape"}]
for _h in _c13:
    if _h["name"].startswith("c03::"):
        _h["tier"] = "quick"
PROPERTIES["C13"] = {
    "harnesses": _c13,
    "explanation": "Composition lemma per bundled TCP signature class, regenerated from the real Database::load_default on every run (tools/gen-tables): "
                   "for all admissible concretisations of a conforming SYN / SYN+ACK the observation built by the real TTL and window extractors has "
                   "distance 0 to the signature under the real calculate_distance, so the best match is this signature or an earlier equally good one.",
    "functions": ["Database::load_default (generator, native)", "ttl::calculate_ttl", "window_size::detect_win_multiplicator", "tcp::Ttl::distance_ttl", "tcp::WindowSize::distance_window_size",
                  "<tcp::Signature as DatabaseSignature<TcpObservation>>::calculate_distance"],
    "bounds": "every bundled TCP signature (199, in 111 scalar classes); hops 0..=30; MSS 64..=65535 when '*'; window <= 65535",
    "outside": "that the header walk renders layout/quirks/pclass as the signature lists them (C03 shapes); that the observation is found through the index (C02: HTTP and TCP version/pclass part); "
               "HTTP request/response signatures (a conforming message must go through Http1Parser: HashMap, not encodable); shadowing by earlier more generic entries",
    "assumptions": ["E1", "layout, quirks, olen copied from the signature", "wildcard MSS >= 64"],
}

# ------------------------------------------------------------------------------------------ C07
_c07 = [
    H("c07::c07_tcp_key_syn", "quick", "SYN with TS option: source/destination address byte, both ports, TSval symbolic",
      "the tracker is entered once with exactly the packet's directed 4-tuple, role and TSval"),
    H("c07::c07_tcp_key_synack", "quick", "SYN+ACK, same", "same"),
    H("c07::c07_tcp_key_ack", "quick", "plain ACK, same (role by the port heuristic)", "same"),
    H("c07::c07_table_other_connection_cli_cli", "quick", "table holds A (client); two segments of another connection B (client), all TSvals symbolic",
      "B's first reports nothing; B's estimate depends on B alone; A's entry bit-identical"),
    H("c07::c07_table_other_connection_srv_cli", "quick", "A server side, B client side of another connection", "same"),
    H("c07::c07_table_other_direction_cli_srv", "quick", "B is the other direction of A's own connection", "same"),
    H("c07::c07_table_other_direction_srv_cli", "quick", "same, roles swapped", "same"),
]
PROPERTIES["C07"] = {
    "harnesses": _c07,
    "explanation": "Isolation of the TCP timestamp state as an inductive step instead of interleavings: (1) packet level - the real header walk hands the tracker "
                   "exactly the packet's own directed 4-tuple, role and TSval, so packets share a key only if they belong to the same connection and direction; "
                   "(2) table level - a step of the real check_ts_tcp for a key B never reads or writes the entry of a different key A (other connection, or the "
                   "other direction of the same one): B's results are those on an empty table and A's entry is bit-identical afterwards.",
    "functions": ["tcp_process::process_tcp_ipv4 (visit_tcp) up to the tracker call", "uptime::check_ts_tcp", "tcp_process::is_packet_from_client"],
    "bounds": "one tracked entry A + two segments of B on the 4-slot model; IPv4; addresses vary in the last byte",
    "outside": "TLS flow table (packet-level TLS path does not finish under Kani), HTTP flows and the HPACK decoder shared by all connections of a processor (D6, seen by reading; "
               "needs HttpProcessors), IPv6 path of the header walk, table eviction at capacity, more than two connections",
    "assumptions": ["E1", "E3 ttl_cache model", "E6", "packet level: tracker replaced by an argument recorder through the verif hook; table level: uptime kernels stubbed"],
}

# ------------------------------------------------------------------------------------------ C06
_c06 = []
_q06 = {"ipver_1", "pclass_1", "tcpopt_3"}  # quick must stay well under 15 min: each nom query costs 7-14 min
for ty, lens in [("ipver", [1, 2]), ("pclass", [1, 2]), ("quirk", [2, 3, 4]), ("tcpopt", [2, 3, 4]), ("ttl", [1, 2, 3, 4]), ("window", [1, 2, 3, 4])]:
    for n in lens:
        _c06.append(H(f"c06::c06_{ty}_{n}", "quick" if f"{ty}_{n}" in _q06 else "thorough",
                      f"every printable-ASCII string of {n} byte(s) parsed as {ty}",
                      "Ok(v) iff the p0f token grammar accepts the whole string, v the value it assigns; Err otherwise (trailing input rejected)",
                      timeout_s=2400, mem_gb=20))
PROPERTIES["C06"] = {
    "harnesses": _c06,
    "max_jobs": 3,
    "explanation": "Token grammar of the TCP signature language by bounded model checking: the real FromStr implementations (nom 8 combinators of db_parse.rs) of the six "
                   "leaf types on every printable-ASCII string of the stated length, against a hand-written recogniser over bytes (no nom).",
    "functions": ["<IpVersion|PayloadSize|Quirk|TcpOption|Ttl|WindowSize as FromStr>::from_str (db_parse::{parse_ip_version, parse_payload_size, parse_quirk, parse_tcp_option, parse_ttl, parse_window_size})"],
    "bounds": "strings of 1..4 bytes; quick: IpVersion and PayloadSize on 1 byte, TcpOption on 3 bytes (each nom query costs 7-14 min and 9-14 GB, at most 3 at a time; the other lengths and types are the thorough tier)",
    "outside": "value -> text -> value (core::fmt on symbolic values exhausts memory), so the round-trip form of the property is not decided; tokens longer than 4 bytes (mss*n, mtu*n, eol+n, uptr+, urgf+, pushf+); "
               "whole signature lines, HTTP signatures, labels, Database::from_str (sections, HashMap index), every Display impl - seeds in display.rs are missed by design",
    "assumptions": ["E1", "E6 format stub (error messages not read)", "printable ASCII"],
}
