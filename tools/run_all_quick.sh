#!/bin/bash
# runs every registered quick check in sequence (evidence is rewritten by each)
cd /verif
for p in C02 C17 C08 C11 C07 C09 C15 C01 C14 C19 C13 C12 C18 C03 C06; do
  s=$(date +%s)
  ./check $p --tier quick > logs/quick_$p.out 2>&1; rc=$?
  echo "$p rc=$rc $(( $(date +%s) - s ))s $(grep -c 'KNOWN-FINDING' logs/quick_$p.out) known $(grep -c 'VIOLATION\|TROUBLE' logs/quick_$p.out) bad"
done
