//! Helpers shared by harnesses.
use std::net::{IpAddr, Ipv4Addr, Ipv6Addr};

#[cfg(kani)]
pub fn any_v4() -> Ipv4Addr {
    Ipv4Addr::from(kani::any::<u32>())
}
#[cfg(kani)]
pub fn any_v6() -> Ipv6Addr {
    Ipv6Addr::from(kani::any::<u128>())
}
/// two endpoints of the same family (symbolic family)
#[cfg(kani)]
pub fn any_endpoint_pair() -> (IpAddr, IpAddr) {
    if kani::any() {
        (IpAddr::V4(any_v4()), IpAddr::V4(any_v4()))
    } else {
        (IpAddr::V6(any_v6()), IpAddr::V6(any_v6()))
    }
}

/// Every family combination (v4/v4, v4/v6, v6/v4, v6/v6): the filter API takes two independent
/// `IpAddr`s, so mixed pairs are in its domain even though no IP packet produces them.
pub fn any_endpoint_pair_mixed() -> (IpAddr, IpAddr) {
    let a = if kani::any() { IpAddr::V4(any_v4()) } else { IpAddr::V6(any_v6()) };
    let b = if kani::any() { IpAddr::V4(any_v4()) } else { IpAddr::V6(any_v6()) };
    (a, b)
}

/// E6: replacement for `alloc::fmt::format` in harnesses whose assertions do not read formatted
/// strings (error messages are built with `format!` on symbolic values otherwise).
pub fn stub_format(_args: core::fmt::Arguments<'_>) -> String {
    String::with_capacity(1)
}
