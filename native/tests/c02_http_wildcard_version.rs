//! C02 / D2: a wildcard-version HTTP signature must be found for an HTTP/2 observation it accepts
//! (real Database::load_default + find_best_match, public API).
use huginn_net_db::db_matching_trait::{DatabaseSignature, FingerprintDb};
use huginn_net_db::http::Version;
use huginn_net_db::observable_signals::HttpRequestObservation;
use huginn_net_db::Database;

#[test]
fn wildcard_version_signature_is_not_hidden_from_http2() {
    let db = Database::load_default().unwrap();
    // take the first bundled request signature with a wildcard version and instantiate it
    let (label, sig) = db
        .http_request
        .entries
        .iter()
        .flat_map(|(l, sigs)| sigs.iter().map(move |s| (l, s)))
        .find(|(_, s)| s.version == Version::Any)
        .expect("p0f.fp has wildcard-version request signatures");
    let obs = HttpRequestObservation {
        version: Version::V20,
        horder: sig.horder.iter().filter(|h| !h.optional).map(|h| { let mut h = h.clone(); h.optional = false; h }).collect(),
        habsent: sig.habsent.clone(),
        expsw: sig.expsw.clone(),
    };
    // an exhaustive scan accepts it ...
    assert!(sig.calculate_distance(&obs).is_some(), "the signature itself accepts the observation");
    // ... so the indexed lookup must report something
    let found = db.http_request.find_best_match(&obs);
    assert!(found.is_some(), "index hides wildcard-version signature {} from an HTTP/2 observation", label.name);
}
