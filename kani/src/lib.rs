//! Kani proof harnesses over the real huginn-net crates (path dependencies on /repo).
//! One module per claimed property; `oracle` holds the independent reference models.
#![allow(dead_code, unused_imports, clippy::all)]

extern crate alloc;

pub mod oracle;
pub mod util;

#[cfg(kani)]
pub mod c01;
#[cfg(kani)]
pub mod c02;
#[cfg(kani)]
pub mod c03;
#[cfg(kani)]
pub mod c06;
#[cfg(kani)]
pub mod c07;
#[cfg(kani)]
pub mod c08;
#[cfg(kani)]
pub mod c09;
#[cfg(kani)]
pub mod c11;
#[cfg(kani)]
pub mod c12;
#[cfg(kani)]
pub mod c13;
#[cfg(kani)]
pub mod c14;
#[cfg(kani)]
pub mod c15;
#[cfg(kani)]
pub mod c17;
#[cfg(kani)]
pub mod c18;
#[cfg(kani)]
pub mod c19;
#[cfg(kani)]
mod playback_gen;
