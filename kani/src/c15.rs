//! C15 — filtering commutes with analysis, as the decoder-agreement lemma (x3 crate copies):
//! if the analyzer's own decoder (`parse_packet` → pnet IPv4/IPv6 view → TCP protocol test →
//! `TcpPacket::new(payload)`) yields endpoints `e` for a frame, then `raw_filter::apply` decides
//! on that same `e`: an allow-list of exactly `e` admits the frame, the same list in deny mode
//! rejects it (which also excludes fail-open on a frame the analyzer processes).
use pnet::ipnetwork::{Ipv4Network, Ipv6Network};
use pnet::packet::ip::IpNextHeaderProtocols;
use pnet::packet::tcp::TcpPacket;
use pnet::packet::Packet;
use std::net::{IpAddr, Ipv4Addr, Ipv6Addr};

macro_rules! c15_for_crate {
    ($m:ident, $krate:ident) => {
        pub mod $m {
            use super::*;
            use $krate::filter::{FilterConfig, FilterMode, IpFilter, PortFilter, SubnetFilter};
            use $krate::packet_parser::{parse_packet, IpPacket};
            use $krate::raw_filter;

            /// endpoints as the analyzer decodes them: (is_v4, src, dst, sport, dport)
            fn analyzer_endpoints_v4(frame: &[u8]) -> Option<(u32, u32, u16, u16)> {
                match parse_packet(frame) {
                    IpPacket::Ipv4(ip) => {
                        if ip.get_next_level_protocol() != IpNextHeaderProtocols::Tcp {
                            return None;
                        }
                        let tcp = TcpPacket::new(ip.payload())?;
                        Some((
                            u32::from(ip.get_source()),
                            u32::from(ip.get_destination()),
                            tcp.get_source(),
                            tcp.get_destination(),
                        ))
                    }
                    _ => None,
                }
            }

            fn analyzer_endpoints_v6(frame: &[u8]) -> Option<(u128, u128, u16, u16)> {
                match parse_packet(frame) {
                    IpPacket::Ipv6(ip) => {
                        if ip.get_next_header() != IpNextHeaderProtocols::Tcp {
                            return None;
                        }
                        let tcp = TcpPacket::new(ip.payload())?;
                        Some((
                            u128::from(ip.get_source()),
                            u128::from(ip.get_destination()),
                            tcp.get_source(),
                            tcp.get_destination(),
                        ))
                    }
                    _ => None,
                }
            }

            fn exact_filter_v4(deny: bool, s: u32, d: u32, sp: u16, dp: u16) -> FilterConfig {
                let mut ipf = IpFilter::new().source_only();
                ipf.ipv4_addresses.push(Ipv4Addr::from(s));
                let mut nf = SubnetFilter::new().destination_only();
                nf.ipv4_subnets.push(Ipv4Network::new(Ipv4Addr::from(d), 32).unwrap());
                FilterConfig::new()
                    .mode(if deny { FilterMode::Deny } else { FilterMode::Allow })
                    .with_port_filter(PortFilter::new().source(sp).destination(dp))
                    .with_ip_filter(ipf)
                    .with_subnet_filter(nf)
            }

            fn exact_filter_v6(deny: bool, s: u128, d: u128, sp: u16, dp: u16) -> FilterConfig {
                let mut ipf = IpFilter::new().source_only();
                ipf.ipv6_addresses.push(Ipv6Addr::from(s));
                let mut nf = SubnetFilter::new().destination_only();
                nf.ipv6_subnets.push(Ipv6Network::new(Ipv6Addr::from(d), 128).unwrap());
                FilterConfig::new()
                    .mode(if deny { FilterMode::Deny } else { FilterMode::Allow })
                    .with_port_filter(PortFilter::new().source(sp).destination(dp))
                    .with_ip_filter(ipf)
                    .with_subnet_filter(nf)
            }

            /// every frame of at most N bytes, IPv4 view
            fn agree_v4<const N: usize>(min_len: usize) {
                let buf: [u8; N] = kani::any();
                let len: usize = kani::any();
                kani::assume(len >= min_len && len <= N);
                let frame = &buf[..len];
                let e = analyzer_endpoints_v4(frame);
                let (s, d, sp, dp) = e.unwrap_or((0, 0, 0, 0));
                let allow = exact_filter_v4(false, s, d, sp, dp);
                let deny = exact_filter_v4(true, s, d, sp, dp);
                let a = raw_filter::apply(frame, &allow);
                let b = raw_filter::apply(frame, &deny);
                kani::cover!(e.is_some(), "analyzer decodes a TCP segment");
                kani::cover!(e.is_some() && (buf[0] & 0x0f) < 5 && (buf[0] >> 4) == 4, "raw IPv4 with IHL < 5");
                kani::cover!(e.is_some() && len > 14 && buf[12] == 0x08 && (buf[14] & 0x0f) > 5, "Ethernet IPv4 with options");
                if e.is_some() {
                    assert!(a, "C15 filter admits the endpoints the analyzer reports (allow-list of exactly them)");
                    assert!(!b, "C15 filter rejects the endpoints the analyzer reports (deny-list of exactly them)");
                }
                core::mem::forget(allow);
                core::mem::forget(deny);
            }

            fn agree_v6<const N: usize>(min_len: usize) {
                let buf: [u8; N] = kani::any();
                let len: usize = kani::any();
                kani::assume(len >= min_len && len <= N);
                let frame = &buf[..len];
                let e = analyzer_endpoints_v6(frame);
                let (s, d, sp, dp) = e.unwrap_or((0, 0, 0, 0));
                let allow = exact_filter_v6(false, s, d, sp, dp);
                let deny = exact_filter_v6(true, s, d, sp, dp);
                let a = raw_filter::apply(frame, &allow);
                let b = raw_filter::apply(frame, &deny);
                kani::cover!(e.is_some(), "analyzer decodes a TCP segment");
                if e.is_some() {
                    assert!(a, "C15 filter admits the endpoints the analyzer reports (allow-list of exactly them)");
                    assert!(!b, "C15 filter rejects the endpoints the analyzer reports (deny-list of exactly them)");
                }
                core::mem::forget(allow);
                core::mem::forget(deny);
            }

            #[kani::proof]
            #[kani::unwind(20)]
            pub fn c15_agree_v4_64() {
                agree_v4::<64>(0)
            }
            #[kani::proof]
            #[kani::unwind(20)]
            pub fn c15_agree_v4_96() {
                agree_v4::<96>(60)
            }
            #[kani::proof]
            #[kani::unwind(20)]
            pub fn c15_agree_v6_84() {
                // Ethernet(14) + IPv6(40) + TCP(20) = 74; NULL(4)+40+20 = 64; raw 60
                agree_v6::<84>(40)
            }
        }
    };
}

c15_for_crate!(tcp, huginn_net_tcp);
c15_for_crate!(http, huginn_net_http);
c15_for_crate!(tls, huginn_net_tls);

/// the unified analyzer: its own packet_parser copy (returns slices; process.rs builds the pnet
/// views from them) together with the TCP crate's raw filter, which `HuginnNet` applies first
pub mod unified {
    use super::*;
    use huginn_net::packet_parser::{parse_packet, IpPacket};
    use huginn_net_tcp::filter::{FilterConfig, FilterMode, IpFilter, PortFilter, SubnetFilter};
    use huginn_net_tcp::raw_filter;
    use pnet::packet::ipv4::Ipv4Packet;
    use pnet::packet::ipv6::Ipv6Packet;

    fn endpoints_v4(frame: &[u8]) -> Option<(u32, u32, u16, u16)> {
        match parse_packet(frame) {
            IpPacket::Ipv4(data) => {
                let ip = Ipv4Packet::new(data)?;
                if ip.get_next_level_protocol() != IpNextHeaderProtocols::Tcp {
                    return None;
                }
                let tcp = TcpPacket::new(ip.payload())?;
                Some((u32::from(ip.get_source()), u32::from(ip.get_destination()), tcp.get_source(), tcp.get_destination()))
            }
            _ => None,
        }
    }

    fn endpoints_v6(frame: &[u8]) -> Option<(u128, u128, u16, u16)> {
        match parse_packet(frame) {
            IpPacket::Ipv6(data) => {
                let ip = Ipv6Packet::new(data)?;
                if ip.get_next_header() != IpNextHeaderProtocols::Tcp {
                    return None;
                }
                let tcp = TcpPacket::new(ip.payload())?;
                Some((u128::from(ip.get_source()), u128::from(ip.get_destination()), tcp.get_source(), tcp.get_destination()))
            }
            _ => None,
        }
    }

    fn exact_v4(deny: bool, s: u32, d: u32, sp: u16, dp: u16) -> FilterConfig {
        let mut ipf = IpFilter::new().source_only();
        ipf.ipv4_addresses.push(Ipv4Addr::from(s));
        let mut nf = SubnetFilter::new().destination_only();
        nf.ipv4_subnets.push(Ipv4Network::new(Ipv4Addr::from(d), 32).unwrap());
        FilterConfig::new()
            .mode(if deny { FilterMode::Deny } else { FilterMode::Allow })
            .with_port_filter(PortFilter::new().source(sp).destination(dp))
            .with_ip_filter(ipf)
            .with_subnet_filter(nf)
    }

    fn exact_v6(deny: bool, s: u128, d: u128, sp: u16, dp: u16) -> FilterConfig {
        let mut ipf = IpFilter::new().source_only();
        ipf.ipv6_addresses.push(Ipv6Addr::from(s));
        let mut nf = SubnetFilter::new().destination_only();
        nf.ipv6_subnets.push(Ipv6Network::new(Ipv6Addr::from(d), 128).unwrap());
        FilterConfig::new()
            .mode(if deny { FilterMode::Deny } else { FilterMode::Allow })
            .with_port_filter(PortFilter::new().source(sp).destination(dp))
            .with_ip_filter(ipf)
            .with_subnet_filter(nf)
    }

    #[kani::proof]
    #[kani::unwind(20)]
    pub fn c15_agree_v4_64() {
        let buf: [u8; 64] = kani::any();
        let len: usize = kani::any();
        kani::assume(len <= 64);
        let frame = &buf[..len];
        let e = endpoints_v4(frame);
        let (s, d, sp, dp) = e.unwrap_or((0, 0, 0, 0));
        let allow = exact_v4(false, s, d, sp, dp);
        let deny = exact_v4(true, s, d, sp, dp);
        let a = raw_filter::apply(frame, &allow);
        let b = raw_filter::apply(frame, &deny);
        kani::cover!(e.is_some(), "unified analyzer decodes a TCP segment");
        if e.is_some() {
            assert!(a, "C15 filter admits the endpoints the analyzer reports (allow-list of exactly them)");
            assert!(!b, "C15 filter rejects the endpoints the analyzer reports (deny-list of exactly them)");
        }
        core::mem::forget(allow);
        core::mem::forget(deny);
    }

    #[kani::proof]
    #[kani::unwind(20)]
    pub fn c15_agree_v6_84() {
        let buf: [u8; 84] = kani::any();
        let len: usize = kani::any();
        kani::assume(len >= 40 && len <= 84);
        let frame = &buf[..len];
        let e = endpoints_v6(frame);
        let (s, d, sp, dp) = e.unwrap_or((0, 0, 0, 0));
        let allow = exact_v6(false, s, d, sp, dp);
        let deny = exact_v6(true, s, d, sp, dp);
        let a = raw_filter::apply(frame, &allow);
        let b = raw_filter::apply(frame, &deny);
        kani::cover!(e.is_some(), "unified analyzer decodes a TCP segment");
        if e.is_some() {
            assert!(a, "C15 filter admits the endpoints the analyzer reports (allow-list of exactly them)");
            assert!(!b, "C15 filter rejects the endpoints the analyzer reports (deny-list of exactly them)");
        }
        core::mem::forget(allow);
        core::mem::forget(deny);
    }
}
