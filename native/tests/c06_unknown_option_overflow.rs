//! C06 / D5: `?n` with n > 255 is not a token of the signature language and must be rejected
//! (it used to parse as `?0`). Real huginn-net-db, public FromStr.
use huginn_net_db::tcp::TcpOption;

#[test]
fn unknown_option_number_above_255_is_rejected() {
    assert_eq!("?255".parse::<TcpOption>().ok(), Some(TcpOption::Unknown(255)));
    assert!("?256".parse::<TcpOption>().is_err(), "?256 parsed as {:?}", "?256".parse::<TcpOption>());
}
