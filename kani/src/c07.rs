//! C07 — connections are analysed in isolation, for the TCP timestamp state: a packet of
//! connection B neither reads nor writes the tracked timestamp of connection A, at packet level
//! (`process_tcp_ipv4` builds the tracking key from the packet) and at the table level.
//! TLS flow table and HTTP flows (shared HPACK decoder, D6) need code that is out of reach.
use crate::c03::{ipv4_syn, TCP_OFF4};
use crate::c19::{freq_domain, stub_guess, stub_round, stub_uptime};
use huginn_net_tcp::tcp_process::process_tcp_ipv4;
use huginn_net_tcp::uptime::verif_hooks as hk;
use huginn_net_tcp::uptime::{check_ts_tcp, Connection, ConnectionKey, TcpTimestamp};
use pnet::packet::ipv4::Ipv4Packet;
use std::net::{IpAddr, Ipv4Addr};
use ttl_cache::TtlCache;

fn set_clocks(ms: u64) {
    hk::set_clock_ms(ms);
    ttl_cache::set_now_ms(ms);
}

/// SYN (or SYN+ACK) with NOP NOP TS(tsval, 0); addresses/ports chosen by the caller
fn ts_packet(src_last: u8, dst_last: u8, sport: u16, dport: u16, flags: u8, tsval: u32) -> [u8; 52] {
    let mut p = ipv4_syn::<52>(12);
    p[15] = src_last;
    p[19] = dst_last;
    let t = TCP_OFF4;
    p[t] = (sport >> 8) as u8;
    p[t + 1] = sport as u8;
    p[t + 2] = (dport >> 8) as u8;
    p[t + 3] = dport as u8;
    p[t + 13] = flags;
    if flags & 0x10 != 0 {
        p[t + 11] = 9; // ack number non-zero
    }
    p[t + 20] = 1;
    p[t + 21] = 1;
    p[t + 22] = 8;
    p[t + 23] = 10;
    p[t + 24] = (tsval >> 24) as u8;
    p[t + 25] = (tsval >> 16) as u8;
    p[t + 26] = (tsval >> 8) as u8;
    p[t + 27] = tsval as u8;
    p
}

fn run(table: &mut TtlCache<ConnectionKey, TcpTimestamp>, p: &[u8; 52]) -> (bool, bool) {
    let ip = Ipv4Packet::new(p).unwrap();
    match process_tcp_ipv4(&ip, table) {
        Ok(o) => {
            (o.client_uptime.is_some(), o.server_uptime.is_some())
        }
        Err(_) => (false, false),
    }
}

// what the header walk hands to the timestamp tracker
static mut REC_CALLS: u32 = 0;
static mut REC_SRC: u32 = 0;
static mut REC_DST: u32 = 0;
static mut REC_SPORT: u16 = 0;
static mut REC_DPORT: u16 = 0;
static mut REC_FROM_CLIENT: bool = false;
static mut REC_TS: u32 = 0;

pub fn record_check_ts(
    _t: &mut TtlCache<ConnectionKey, TcpTimestamp>,
    c: &Connection,
    from_client: bool,
    ts_val: u32,
) -> (Option<huginn_net_tcp::observable::ObservableUptime>, Option<huginn_net_tcp::observable::ObservableUptime>) {
    unsafe {
        REC_CALLS += 1;
        REC_SRC = match c.src_ip {
            IpAddr::V4(a) => u32::from(a),
            _ => 0,
        };
        REC_DST = match c.dst_ip {
            IpAddr::V4(a) => u32::from(a),
            _ => 0,
        };
        REC_SPORT = c.src_port;
        REC_DPORT = c.dst_port;
        REC_FROM_CLIENT = from_client;
        REC_TS = ts_val;
    }
    (None, None)
}

/// packet level: the tracking key the header walk builds is the packet's own directed 4-tuple and
/// role, and the tracked value is the packet's TSval - so two packets share timestamp state only if
/// they agree on all four parts and the direction (the table-level harnesses below show that
/// different keys never touch each other's state).  `check_ts_tcp` is replaced by a recorder through the verif hook
/// `set_tracker_override` (same replacement in the native replay): the real tracker behind the real
/// header walk made CBMC report spurious pointer failures.
fn packet_key(flags: u8) {
    let mut table: TtlCache<ConnectionKey, TcpTimestamp> = TtlCache::new(4);
    let src: u8 = kani::any();
    let dst: u8 = kani::any();
    let sport: u16 = kani::any();
    let dport: u16 = kani::any();
    let tsval: u32 = kani::any();
    let p = ts_packet(src, dst, sport, dport, flags, tsval);
    unsafe { REC_CALLS = 0 };
    hk::set_tracker_override(Some(record_check_ts));
    let _ = run(&mut table, &p);
    hk::set_tracker_override(None);
    kani::cover!(unsafe { REC_CALLS } == 1 && sport > 1024 && dport <= 1024, "tracker reached, ephemeral -> well-known port");
    unsafe {
        assert!(REC_CALLS == 1, "C07 one tracker step per timestamped segment");
        assert!(REC_SRC == 0x0a00_0000 | src as u32 && REC_SPORT == sport, "C07 tracking key: the packet's own source address and port");
        assert!(REC_DST == 0x0a00_0000 | dst as u32 && REC_DPORT == dport, "C07 tracking key: the packet's own destination address and port");
        assert!(REC_TS == tsval, "C07 tracked value: the packet's own TSval");
        assert!(REC_FROM_CLIENT == huginn_net_tcp::tcp_process::is_packet_from_client(flags, sport, dport), "C07 tracking key: the packet's own direction");
    }
    core::mem::forget(table);
}

macro_rules! key_harness {
    ($name:ident, $flags:expr) => {
        #[kani::proof]
        #[kani::stub(alloc::fmt::format, crate::util::stub_format)]
        #[kani::unwind(16)]
        pub fn $name() {
            packet_key($flags)
        }
    };
}
key_harness!(c07_tcp_key_syn, 0x02);
key_harness!(c07_tcp_key_synack, 0x12);
key_harness!(c07_tcp_key_ack, 0x10);

/// table level: a step for key B leaves the entry of A bit-identical
fn table_isolation(fc_a: bool, fc_b: bool, same_tuple: bool) {
    let mut table: TtlCache<ConnectionKey, TcpTimestamp> = TtlCache::new(4);
    let ca = Connection { src_ip: IpAddr::V4(Ipv4Addr::new(10, 0, 0, 1)), src_port: 40000, dst_ip: IpAddr::V4(Ipv4Addr::new(10, 0, 0, 2)), dst_port: 80 };
    let cb = if same_tuple {
        ca.clone()
    } else {
        Connection { src_ip: IpAddr::V4(Ipv4Addr::new(10, 0, 0, 1)), src_port: 40000, dst_ip: IpAddr::V4(Ipv4Addr::new(10, 0, 0, 9)), dst_port: 80 }
    };
    let a: u32 = kani::any();
    let b1: u32 = kani::any();
    let b2: u32 = kani::any();
    let t0: u64 = 1_700_000_000_000;
    set_clocks(t0);
    let _ = check_ts_tcp(&mut table, &ca, fc_a, a);
    set_clocks(t0 + 300);
    let r1 = check_ts_tcp(&mut table, &cb, fc_b, b1);
    set_clocks(t0 + 900);
    let r2 = check_ts_tcp(&mut table, &cb, fc_b, b2);
    assert!(r1.0.is_none() && r1.1.is_none(), "C07 B's first segment reports nothing although A is tracked");
    let want = freq_domain(b1, b2, 600).is_some();
    let mine = if fc_b { r2.0.is_some() } else { r2.1.is_some() };
    kani::cover!(mine, "B measured while A is tracked");
    assert!(mine == want, "C07 B's estimate depends on B's own segments only");
    let ka = ConnectionKey { connection: ca.clone(), is_client: fc_a };
    match table.get(&ka) {
        Some(e) => assert!(e.ts_val == a && e.recv_time_ms == t0 && !e.is_bad_frequency, "C07 A's tracked timestamp is untouched by B's segments"),
        None => assert!(false, "C07 A's entry is still there"),
    }
    core::mem::forget(table);
}

macro_rules! table_iso_harness {
    ($name:ident, $fa:expr, $fb:expr, $same:expr) => {
        #[kani::proof]
        #[kani::stub(alloc::fmt::format, crate::util::stub_format)]
        #[kani::stub(huginn_net_tcp::uptime::calculate_uptime_from_frequency, stub_uptime)]
        #[kani::stub(huginn_net_tcp::uptime::guess_frequency, stub_guess)]
        #[kani::stub(huginn_net_tcp::uptime::round_frequency_p0f_style, stub_round)]
        #[kani::unwind(8)]
        pub fn $name() {
            table_isolation($fa, $fb, $same)
        }
    };
}
table_iso_harness!(c07_table_other_connection_cli_cli, true, true, false);
table_iso_harness!(c07_table_other_connection_srv_cli, false, true, false);
table_iso_harness!(c07_table_other_direction_cli_srv, true, false, true);
table_iso_harness!(c07_table_other_direction_srv_cli, false, true, true);


