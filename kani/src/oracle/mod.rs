//! Reference models written from the documented rules (no repo code).
pub mod filter;
