//! C18 / D22 + D15: dispatch hash vs connection identity, real build, public API.
use huginn_net_http::packet_hash::hash_flow as http_hash;
use huginn_net_tls::packet_hash::hash_flow as tls_hash;

fn ipv4_tcp(ihl: u8, src: [u8; 4], dst: [u8; 4], sp: u16, dp: u16) -> Vec<u8> {
    let mut p = vec![0u8; 60];
    p[0] = 0x40 | ihl;
    p[3] = 60;
    p[8] = 64;
    p[9] = 6;
    p[12..16].copy_from_slice(&src);
    p[16..20].copy_from_slice(&dst);
    // pnet (the analyzer) keeps the TCP header at offset 20 when IHL <= 5
    p[20..22].copy_from_slice(&sp.to_be_bytes());
    p[22..24].copy_from_slice(&dp.to_be_bytes());
    p[32] = 0x50;
    p[33] = 0x10;
    p
}

#[test]
fn d22_same_connection_ihl_4_and_5_same_worker() {
    let a = ipv4_tcp(4, [10, 0, 0, 1], [10, 0, 0, 2], 40000, 443);
    let b = ipv4_tcp(5, [10, 0, 0, 1], [10, 0, 0, 2], 40000, 443);
    for n in [2usize, 3, 4, 7, 8, 16, 64] {
        assert_eq!(tls_hash(&a, n), tls_hash(&b, n), "tls, {n} workers");
        assert_eq!(http_hash(&a, n), http_hash(&b, n), "http, {n} workers");
    }
}

#[test]
fn d15_http_both_directions_same_worker() {
    let a = ipv4_tcp(5, [10, 0, 0, 1], [10, 0, 0, 2], 40000, 80);
    let b = ipv4_tcp(5, [10, 0, 0, 2], [10, 0, 0, 1], 80, 40000);
    for n in [2usize, 3, 4, 7, 8, 16, 64] {
        assert_eq!(http_hash(&a, n), http_hash(&b, n), "http request and response, {n} workers");
    }
}
