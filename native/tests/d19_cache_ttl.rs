//! D19 (C19): real ttl_cache, real clocks. Two timestamped segments of one endpoint 31 s apart
//! at a steady 1000 Hz must yield an estimate (the statement allows 25 ms .. 10 min).
//! Before the fix the reference entry expired after 30 s and nothing was reported.
//! Slow (sleeps 31 s): run with `cargo test --test d19_cache_ttl -- --ignored`.
use huginn_net_tcp::uptime::{check_ts_tcp, Connection, ConnectionKey, TcpTimestamp};
use std::net::{IpAddr, Ipv4Addr};
use std::time::{Duration, Instant};
use ttl_cache::TtlCache;

#[test]
#[ignore]
fn estimate_after_31_seconds() {
    let mut table: TtlCache<ConnectionKey, TcpTimestamp> = TtlCache::new(16);
    let c = Connection {
        src_ip: IpAddr::V4(Ipv4Addr::new(10, 0, 0, 1)),
        src_port: 40000,
        dst_ip: IpAddr::V4(Ipv4Addr::new(10, 0, 0, 2)),
        dst_port: 80,
    };
    let t = Instant::now();
    let r0 = check_ts_tcp(&mut table, &c, true, 1_000_000);
    assert!(r0.0.is_none() && r0.1.is_none());
    std::thread::sleep(Duration::from_millis(31_000));
    let ms = t.elapsed().as_millis() as u32;
    let r1 = check_ts_tcp(&mut table, &c, true, 1_000_000 + ms); // 1 tick per ms = 1000 Hz
    assert!(r1.0.is_some(), "no estimate for a steady 1000 Hz clock observed 31 s apart");
    assert_eq!(r1.0.unwrap().freq, 1000.0);
}
