//! C14 — packet filters decide exactly the documented boolean function (x3 crate copies).
//!
//! Every value is symbolic; list lengths and the presence pattern of the three sub-filters are
//! enumerated as separate harness instances (E5: no allocation under a symbolic branch).
//! The port filter is always built through the public builder (`source`, `source_list`,
//! `source_range(Range<u16>)`, `any_port`), address and subnet filters through their public
//! fields (the string builders `allow("…")` go through `str::parse`, outside the claim) with
//! `Ipv4Network::new(addr, prefix)` / `Ipv6Network::new`.
use crate::oracle::filter as o;
use crate::util::*;
use pnet::ipnetwork::{Ipv4Network, Ipv6Network};
use std::net::{IpAddr, Ipv4Addr, Ipv6Addr};

macro_rules! c14_for_crate {
    ($m:ident, $krate:ident) => {
        pub mod $m {
            use super::*;
            use $krate::filter::{FilterConfig, FilterMode, IpFilter, PortFilter, SubnetFilter};

            struct PortCase<const NSP: usize, const NDP: usize, const NSR: usize, const NDR: usize> {
                sp: [u16; NSP],
                dp: [u16; NDP],
                sr: [(u16, u16); NSR],
                dr: [(u16, u16); NDR],
                any: bool,
            }

            fn port_case<const NSP: usize, const NDP: usize, const NSR: usize, const NDR: usize>(
            ) -> (PortFilter, PortCase<NSP, NDP, NSR, NDR>) {
                let c = PortCase::<NSP, NDP, NSR, NDR> {
                    sp: kani::any(),
                    dp: kani::any(),
                    sr: kani::any(),
                    dr: kani::any(),
                    any: kani::any(),
                };
                let mut pf = PortFilter::new();
                if NSP >= 2 {
                    pf = pf.source_list(c.sp.to_vec());
                } else {
                    for p in c.sp {
                        pf = pf.source(p);
                    }
                }
                if NDP >= 2 {
                    pf = pf.destination_list(c.dp.to_vec());
                } else {
                    for p in c.dp {
                        pf = pf.destination(p);
                    }
                }
                for (s, e) in c.sr {
                    pf = pf.source_range(s..e);
                }
                for (s, e) in c.dr {
                    pf = pf.destination_range(s..e);
                }
                if c.any {
                    pf = pf.any_port();
                }
                (pf, c)
            }

            fn port_oracle<const NSP: usize, const NDP: usize, const NSR: usize, const NDR: usize>(
                c: &PortCase<NSP, NDP, NSR, NDR>,
                s: u16,
                d: u16,
            ) -> bool {
                o::port_matches(
                    &o::PortSpec {
                        src_ports: &c.sp,
                        dst_ports: &c.dp,
                        src_ranges: &c.sr,
                        dst_ranges: &c.dr,
                        any_port: c.any,
                    },
                    s,
                    d,
                )
            }

            fn check_port<const NSP: usize, const NDP: usize, const NSR: usize, const NDR: usize>() {
                let (pf, c) = port_case::<NSP, NDP, NSR, NDR>();
                let s: u16 = kani::any();
                let d: u16 = kani::any();
                let got = pf.matches(s, d);
                let want = port_oracle(&c, s, d);
                kani::cover!(got, "port filter matches");
                kani::cover!(!got || NSP + NDP + NSR + NDR == 0, "port filter rejects");
                assert!(got == want, "C14 port filter == documented rule");
                // also through the combined configuration, both modes
                let deny: bool = kani::any();
                let cfg = FilterConfig::new()
                    .mode(if deny { FilterMode::Deny } else { FilterMode::Allow })
                    .with_port_filter(pf);
                let (a, b) = any_endpoint_pair();
                let got2 = cfg.should_process(&a, &b, s, d);
                assert!(
                    got2 == o::should_process(deny, Some(want), None, None),
                    "C14 config(port only) == documented rule"
                );
                core::mem::forget(cfg);
            }

            struct IpCase<const N4: usize, const N6: usize> {
                v4: [u32; N4],
                v6: [u128; N6],
                cs: bool,
                cd: bool,
            }

            fn ip_case<const N4: usize, const N6: usize>() -> (IpFilter, IpCase<N4, N6>) {
                let c = IpCase::<N4, N6> {
                    v4: kani::any(),
                    v6: kani::any(),
                    cs: kani::any(),
                    cd: kani::any(),
                };
                let mut f = IpFilter::new();
                for a in c.v4 {
                    f.ipv4_addresses.push(Ipv4Addr::from(a));
                }
                for a in c.v6 {
                    f.ipv6_addresses.push(Ipv6Addr::from(a));
                }
                // side selection: builder methods where they exist, the public fields otherwise
                if c.cs && !c.cd {
                    f = f.source_only();
                } else if !c.cs && c.cd {
                    f = f.destination_only();
                } else {
                    f.check_source = c.cs;
                    f.check_destination = c.cd;
                }
                (f, c)
            }

            fn ip_oracle<const N4: usize, const N6: usize>(
                c: &IpCase<N4, N6>,
                a: &IpAddr,
                b: &IpAddr,
            ) -> bool {
                o::addr_matches(
                    &o::AddrSpec { v4: &c.v4, v6: &c.v6, check_src: c.cs, check_dst: c.cd },
                    a,
                    b,
                )
            }

            fn check_ip<const N4: usize, const N6: usize>() {
                check_ip_on::<N4, N6>(any_endpoint_pair())
            }

            fn check_ip_on<const N4: usize, const N6: usize>((a, b): (IpAddr, IpAddr)) {
                let (f, c) = ip_case::<N4, N6>();
                let got = f.matches(&a, &b);
                let want = ip_oracle(&c, &a, &b);
                kani::cover!(got || N4 + N6 == 0, "ip filter matches");
                kani::cover!(!got, "ip filter rejects");
                assert!(got == want, "C14 ip filter == documented rule");
                let deny: bool = kani::any();
                let cfg = FilterConfig::new()
                    .mode(if deny { FilterMode::Deny } else { FilterMode::Allow })
                    .with_ip_filter(f);
                let got2 = cfg.should_process(&a, &b, kani::any(), kani::any());
                assert!(
                    got2 == o::should_process(deny, None, Some(want), None),
                    "C14 config(ip only) == documented rule"
                );
                core::mem::forget(cfg);
            }

            struct NetCase<const N4: usize, const N6: usize> {
                v4: [(u32, u8); N4],
                v6: [(u128, u8); N6],
                cs: bool,
                cd: bool,
            }

            fn net_case<const N4: usize, const N6: usize>() -> (SubnetFilter, NetCase<N4, N6>) {
                let c = NetCase::<N4, N6> {
                    v4: kani::any(),
                    v6: kani::any(),
                    cs: kani::any(),
                    cd: kani::any(),
                };
                let mut f = SubnetFilter::new();
                for (a, p) in c.v4 {
                    kani::assume(p <= 32);
                    f.ipv4_subnets.push(Ipv4Network::new(Ipv4Addr::from(a), p).unwrap());
                }
                for (a, p) in c.v6 {
                    kani::assume(p <= 128);
                    f.ipv6_subnets.push(Ipv6Network::new(Ipv6Addr::from(a), p).unwrap());
                }
                if c.cs && !c.cd {
                    f = f.source_only();
                } else if !c.cs && c.cd {
                    f = f.destination_only();
                } else {
                    f.check_source = c.cs;
                    f.check_destination = c.cd;
                }
                (f, c)
            }

            fn net_oracle<const N4: usize, const N6: usize>(
                c: &NetCase<N4, N6>,
                a: &IpAddr,
                b: &IpAddr,
            ) -> bool {
                o::subnet_matches(
                    &o::SubnetSpec { v4: &c.v4, v6: &c.v6, check_src: c.cs, check_dst: c.cd },
                    a,
                    b,
                )
            }

            fn check_net<const N4: usize, const N6: usize>() {
                check_net_on::<N4, N6>(any_endpoint_pair())
            }

            fn check_net_on<const N4: usize, const N6: usize>((a, b): (IpAddr, IpAddr)) {
                let (f, c) = net_case::<N4, N6>();
                let got = f.matches(&a, &b);
                let want = net_oracle(&c, &a, &b);
                kani::cover!(got || N4 + N6 == 0, "subnet filter matches");
                kani::cover!(!got, "subnet filter rejects");
                assert!(got == want, "C14 subnet filter == documented rule");
                let deny: bool = kani::any();
                let cfg = FilterConfig::new()
                    .mode(if deny { FilterMode::Deny } else { FilterMode::Allow })
                    .with_subnet_filter(f);
                let got2 = cfg.should_process(&a, &b, kani::any(), kani::any());
                assert!(
                    got2 == o::should_process(deny, None, None, Some(want)),
                    "C14 config(subnet only) == documented rule"
                );
                core::mem::forget(cfg);
            }

            /// combined configuration, presence pattern fixed by const parameters
            fn check_config<const P: bool, const I: bool, const S: bool, const N4: usize, const N6: usize>() {
                check_config_on::<P, I, S, N4, N6>(any_endpoint_pair())
            }

            fn check_config_on<const P: bool, const I: bool, const S: bool, const N4: usize, const N6: usize>((a, b): (IpAddr, IpAddr)) {
                let deny: bool = kani::any();
                let s: u16 = kani::any();
                let d: u16 = kani::any();
                let mut cfg = FilterConfig::new()
                    .mode(if deny { FilterMode::Deny } else { FilterMode::Allow });
                let mut wp = None;
                let mut wi = None;
                let mut ws = None;
                if P {
                    let (pf, c) = port_case::<1, 1, 1, 1>();
                    wp = Some(port_oracle(&c, s, d));
                    cfg = cfg.with_port_filter(pf);
                }
                if I {
                    let (f, c) = ip_case::<N4, N6>();
                    wi = Some(ip_oracle(&c, &a, &b));
                    cfg = cfg.with_ip_filter(f);
                }
                if S {
                    let (f, c) = net_case::<N4, N6>();
                    ws = Some(net_oracle(&c, &a, &b));
                    cfg = cfg.with_subnet_filter(f);
                }
                let got = cfg.should_process(&a, &b, s, d);
                let want = o::should_process(deny, wp, wi, ws);
                kani::cover!(got, "config admits");
                kani::cover!(!got || !(P || I || S), "config rejects");
                assert!(got == want, "C14 combined filter == documented rule");
                core::mem::forget(cfg);
            }

            // ---- port filter shapes (src ports, dst ports, src ranges, dst ranges) ----
            #[kani::proof]
            #[kani::unwind(20)]
            pub fn c14_port_0000() {
                check_port::<0, 0, 0, 0>()
            }
            #[kani::proof]
            #[kani::unwind(20)]
            pub fn c14_port_1000() {
                check_port::<1, 0, 0, 0>()
            }
            #[kani::proof]
            #[kani::unwind(20)]
            pub fn c14_port_0100() {
                check_port::<0, 1, 0, 0>()
            }
            #[kani::proof]
            #[kani::unwind(20)]
            pub fn c14_port_0010() {
                check_port::<0, 0, 1, 0>()
            }
            #[kani::proof]
            #[kani::unwind(20)]
            pub fn c14_port_0001() {
                check_port::<0, 0, 0, 1>()
            }
            #[kani::proof]
            #[kani::unwind(20)]
            pub fn c14_port_1111() {
                check_port::<1, 1, 1, 1>()
            }
            #[kani::proof]
            #[kani::unwind(20)]
            pub fn c14_port_2200() {
                check_port::<2, 2, 0, 0>()
            }
            #[kani::proof]
            #[kani::unwind(20)]
            pub fn c14_port_2010() {
                check_port::<2, 0, 1, 0>()
            }
            #[kani::proof]
            #[kani::unwind(20)]
            pub fn c14_port_0022() {
                check_port::<0, 0, 2, 2>()
            }
            // ---- combined ip + subnet (and all three) on mixed-family endpoint pairs ----
            #[kani::proof]
            #[kani::unwind(20)]
            pub fn c14_cfgmix_011() {
                check_config_on::<false, true, true, 1, 0>(any_endpoint_pair_mixed())
            }
            #[kani::proof]
            #[kani::unwind(20)]
            pub fn c14_cfgmix_111() {
                check_config_on::<true, true, true, 1, 0>(any_endpoint_pair_mixed())
            }
            // ---- deeper list bounds (thorough tier) ----
            #[kani::proof]
            #[kani::unwind(20)]
            pub fn c14_port_3300() {
                check_port::<3, 3, 0, 0>()
            }
            #[kani::proof]
            #[kani::unwind(20)]
            pub fn c14_port_0033() {
                check_port::<0, 0, 3, 3>()
            }
            #[kani::proof]
            #[kani::unwind(20)]
            pub fn c14_port_2222() {
                check_port::<2, 2, 2, 2>()
            }
            // ---- address filter shapes (v4 count, v6 count) ----
            #[kani::proof]
            #[kani::unwind(20)]
            pub fn c14_ip_00() {
                check_ip::<0, 0>()
            }
            #[kani::proof]
            #[kani::unwind(20)]
            pub fn c14_ip_10() {
                check_ip::<1, 0>()
            }
            #[kani::proof]
            #[kani::unwind(20)]
            pub fn c14_ip_01() {
                check_ip::<0, 1>()
            }
            #[kani::proof]
            #[kani::unwind(20)]
            pub fn c14_ip_21() {
                check_ip::<2, 1>()
            }
            // ---- mixed-family endpoint pairs (v4/v6, v6/v4 as well), 1 v4 + 1 v6 element ----
            #[kani::proof]
            #[kani::unwind(20)]
            pub fn c14_ipmix_11() {
                check_ip_on::<1, 1>(any_endpoint_pair_mixed())
            }
            #[kani::proof]
            #[kani::unwind(20)]
            pub fn c14_netmix_11() {
                check_net_on::<1, 1>(any_endpoint_pair_mixed())
            }
            // ---- subnet filter shapes ----
            #[kani::proof]
            #[kani::unwind(20)]
            pub fn c14_net_00() {
                check_net::<0, 0>()
            }
            #[kani::proof]
            #[kani::unwind(20)]
            pub fn c14_net_10() {
                check_net::<1, 0>()
            }
            #[kani::proof]
            #[kani::unwind(20)]
            pub fn c14_net_01() {
                check_net::<0, 1>()
            }
            #[kani::proof]
            #[kani::unwind(20)]
            pub fn c14_net_21() {
                check_net::<2, 1>()
            }
            // ---- combined: all 8 presence patterns ----
            #[kani::proof]
            #[kani::unwind(20)]
            pub fn c14_cfg_000() {
                check_config::<false, false, false, 1, 0>()
            }
            #[kani::proof]
            #[kani::unwind(20)]
            pub fn c14_cfg_100() {
                check_config::<true, false, false, 1, 0>()
            }
            #[kani::proof]
            #[kani::unwind(20)]
            pub fn c14_cfg_010() {
                check_config::<false, true, false, 1, 0>()
            }
            #[kani::proof]
            #[kani::unwind(20)]
            pub fn c14_cfg_001() {
                check_config::<false, false, true, 1, 0>()
            }
            #[kani::proof]
            #[kani::unwind(20)]
            pub fn c14_cfg_110() {
                check_config::<true, true, false, 1, 0>()
            }
            #[kani::proof]
            #[kani::unwind(20)]
            pub fn c14_cfg_101() {
                check_config::<true, false, true, 1, 0>()
            }
            #[kani::proof]
            #[kani::unwind(20)]
            pub fn c14_cfg_011() {
                check_config::<false, true, true, 1, 0>()
            }
            #[kani::proof]
            #[kani::unwind(20)]
            pub fn c14_cfg_111() {
                check_config::<true, true, true, 1, 0>()
            }
            // ---- combined, IPv6 list elements ----
            #[kani::proof]
            #[kani::unwind(20)]
            pub fn c14_cfg6_011() {
                check_config::<false, true, true, 0, 1>()
            }
            #[kani::proof]
            #[kani::unwind(20)]
            pub fn c14_cfg6_111() {
                check_config::<true, true, true, 0, 1>()
            }
        }
    };
}

c14_for_crate!(tcp, huginn_net_tcp);
c14_for_crate!(http, huginn_net_http);
c14_for_crate!(tls, huginn_net_tls);
