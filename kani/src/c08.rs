//! C08 (buffering half) / C11 (retained bytes) / C01 (reader totality) — TlsClientHelloReader.
//! `parse_tls_client_hello` (tls-parser, out of reach) is replaced by a call recorder (through the
//! verif hook `set_parser_override`, so that the native replay runs the same recorder), so what is
//! decided is exactly when the reader hands which bytes to the parser, what it returns before
//! that, and how many bytes it retains.
use huginn_net_tls::error::HuginnNetTlsError;
use huginn_net_tls::tls::Signature;
use huginn_net_tls::tls_client_hello_reader::TlsClientHelloReader;

static mut PARSER_CALLS: u32 = 0;
static mut PARSER_LEN: usize = 0;
static mut PARSER_FIRST: u8 = 0;
static mut PARSER_LAST: u8 = 0;
static mut PARSER_VERDICT: u8 = 0; // 0 = Ok(None) (not a ClientHello), 1 = Err
static mut PROBE_IDX: usize = 0; // harness-chosen position whose byte the recorder keeps
static mut PARSER_PROBE: u8 = 0;

/// call recorder standing in for the tls-parser based parser
pub fn stub_parse(data: &[u8]) -> Result<Option<Signature>, HuginnNetTlsError> {
    unsafe {
        PARSER_CALLS += 1;
        PARSER_LEN = data.len();
        PARSER_FIRST = if data.is_empty() { 0 } else { data[0] };
        PARSER_LAST = if data.is_empty() { 0 } else { data[data.len() - 1] };
        PARSER_PROBE = if PROBE_IDX < data.len() { data[PROBE_IDX] } else { 0 };
        if PARSER_VERDICT == 0 {
            Ok(None)
        } else {
            Err(HuginnNetTlsError::Parse(String::with_capacity(1)))
        }
    }
}

/// install the recorder in place of the tls-parser based parser (hook `set_parser_override`: the
/// same replacement is active in the model checker and in the native replay)
fn install_recorder() {
    huginn_net_tls::tls_process::verif_hooks::set_parser_override(Some(stub_parse));
}

fn calls() -> u32 {
    unsafe { PARSER_CALLS }
}

/// Inductive step.  State: a reader that retains `B` bytes `prefix` which do not complete a record
/// (the invariant every earlier incomplete call leaves behind: buffer == bytes delivered so far,
/// and either < 5 bytes, or a handshake header whose declared record is longer than what is there,
/// or not a handshake).  Step: one more `add_bytes(chunk)` of `D` bytes, everything symbolic.
/// Post: if the record is still incomplete: Ok(None), parser not entered, buffer == prefix ++ chunk
/// (nothing lost, nothing reordered) and, for a handshake header, retained < 5 + declared <= 65540;
/// if the chunk completes it: parser entered exactly once with exactly the first 5 + declared bytes
/// of prefix ++ chunk.  By induction over the calls this covers every in-order segmentation.
fn step<const B: usize, const D: usize>() {
    let prefix: [u8; B] = kani::any();
    let chunk: [u8; D] = kani::any();
    let probe: usize = kani::any();
    kani::assume(probe < B + D);
    unsafe {
        PARSER_CALLS = 0;
        PARSER_VERDICT = kani::any::<u8>() & 1;
        PROBE_IDX = probe;
    }
    // all = prefix ++ chunk
    let mut all = [0u8; 64];
    let mut i = 0;
    while i < B {
        all[i] = prefix[i];
        i += 1;
    }
    let mut j = 0;
    while j < D {
        all[B + j] = chunk[j];
        j += 1;
    }
    let total = B + D;
    // invariant on the state
    if B >= 5 {
        let declared = u16::from_be_bytes([prefix[3], prefix[4]]) as usize;
        kani::assume(prefix[0] != 0x16 || B < declared + 5);
    }
    install_recorder();
    let mut r = TlsClientHelloReader::verif_with_buffer(&prefix);
    let res = r.add_bytes(&chunk);
    let handshake = total >= 5 && all[0] == 0x16;
    let needed = if total >= 5 { u16::from_be_bytes([all[3], all[4]]) as usize + 5 } else { usize::MAX };
    let complete = handshake && total >= needed;
    kani::cover!(complete || B + D < 5, "chunk completes the record");
    kani::cover!((handshake && !complete) || B + D < 5, "handshake record still incomplete");
    kani::cover!((total >= 5 && !handshake) || B + D < 5, "not a handshake record");
    if complete {
        assert!(calls() == 1, "C08 parser entered exactly once by the call that completes the record");
        unsafe {
            assert!(PARSER_LEN == needed, "C08 parser receives exactly the record (5 + declared length bytes)");
            assert!(PARSER_FIRST == all[0] && PARSER_LAST == all[needed - 1], "C08 parser receives the record's own bytes, in order");
            // every position of the record (symbolic probe position): retained prefix and new chunk
            if probe < needed {
                assert!(PARSER_PROBE == all[probe], "C08 parser receives retained bytes ++ new bytes, unchanged and in order");
            }
        }
        // parser says "not a ClientHello" -> no result, reader empty; parser error -> error value
        if unsafe { PARSER_VERDICT } == 0 {
            assert!(matches!(res, Ok(None)), "C08 a record that is not a ClientHello produces no result");
            assert!(r.buffer_len() == 0, "C08 reader is reset after a non-ClientHello record");
        } else {
            assert!(res.is_err(), "C08 parser error is returned as an error value");
        }
    } else {
        assert!(calls() == 0, "C08 parser not entered before the record is complete");
        assert!(matches!(res, Ok(None)), "C08 no result before the record is complete");
        assert!(r.buffer_len() == total, "C08 nothing lost: retained bytes == bytes delivered");
        // every position, by one symbolic index (a loop over all positions exhausted memory)
        // (reading the retained bytes back after the call exhausted memory in every form tried;
        // their content is checked when they reach the parser: see the probe position above)
        if handshake {
            assert!(r.buffer_len() < needed && needed <= 65_540, "C11 retained bytes < 5 + declared length <= 65540");
        }
    }
    core::mem::forget(res);
    core::mem::forget(r);
}

macro_rules! step_harness {
    ($name:ident, $b:expr, $d:expr) => {
        #[kani::proof]
        #[kani::stub(alloc::fmt::format, crate::util::stub_format)]
        #[kani::unwind(40)]
        pub fn $name() {
            step::<$b, $d>()
        }
    };
}
step_harness!(c08_step_b1_d4, 1, 4);
step_harness!(c08_step_b3_d1, 3, 1);
step_harness!(c08_step_b3_d5, 3, 5);
step_harness!(c08_step_b4_d1, 4, 1);
step_harness!(c08_step_b4_d8, 4, 8);
step_harness!(c08_step_b5_d1, 5, 1);
step_harness!(c08_step_b5_d8, 5, 8);
step_harness!(c08_step_b7_d3, 7, 3);
step_harness!(c08_step_b9_d8, 9, 8);
step_harness!(c08_step_b16_d16, 16, 16);

/// first call on a fresh reader (state: nothing retained), one chunk of `D` bytes
fn fresh<const D: usize>() {
    let chunk: [u8; D] = kani::any();
    let probe: usize = kani::any();
    kani::assume(probe < D);
    unsafe {
        PARSER_CALLS = 0;
        PARSER_VERDICT = kani::any::<u8>() & 1;
        PROBE_IDX = probe;
    }
    install_recorder();
    let mut r = TlsClientHelloReader::new();
    let res = r.add_bytes(&chunk);
    let handshake = D >= 5 && chunk[0] == 0x16;
    let needed = if D >= 5 { u16::from_be_bytes([chunk[3], chunk[4]]) as usize + 5 } else { usize::MAX };
    let complete = handshake && D >= needed;
    kani::cover!(complete || D < 5, "single segment holds the whole record");
    kani::cover!((complete && D > needed) || D <= 5, "bytes after the record in the same segment");
    if complete {
        assert!(calls() == 1, "C08 parser entered exactly once by the call that completes the record");
        unsafe {
            assert!(PARSER_LEN == needed, "C08 parser receives exactly the record (bytes after it are not part of it)");
            if probe < needed {
                assert!(PARSER_PROBE == chunk[probe], "C08 parser receives the record's own bytes, in order");
            }
        }
    } else {
        assert!(calls() == 0, "C08 parser not entered before the record is complete");
        assert!(matches!(res, Ok(None)), "C08 no result before the record is complete");
        assert!(r.buffer_len() == D, "C08 nothing lost: retained bytes == bytes delivered");
    }
    core::mem::forget(res);
    core::mem::forget(r);
}

macro_rules! fresh_harness {
    ($name:ident, $d:expr) => {
        #[kani::proof]
        #[kani::stub(alloc::fmt::format, crate::util::stub_format)]
        #[kani::unwind(40)]
        pub fn $name() {
            fresh::<$d>()
        }
    };
}
fresh_harness!(c08_fresh_d1, 1);
fresh_harness!(c08_fresh_d4, 4);
fresh_harness!(c08_fresh_d5, 5);
fresh_harness!(c08_fresh_d12, 12);
fresh_harness!(c08_fresh_d32, 32);
