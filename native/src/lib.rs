//! helpers for native replays
