//! C09 / D7: a request whose bytes straddle the 2^32 sequence wrap, delivered in order in two
//! segments, through the packet-level public API of the HTTP crate (real build).
use huginn_net_http::http_process::{process_http_ipv4, HttpProcessors, TcpFlow, FlowKey};
use pnet::packet::ipv4::Ipv4Packet;
use ttl_cache::TtlCache;

fn ipv4_tcp(src: [u8; 4], dst: [u8; 4], sp: u16, dp: u16, seq: u32, flags: u8, payload: &[u8]) -> Vec<u8> {
    let total = 40 + payload.len();
    let mut p = vec![0u8; total];
    p[0] = 0x45;
    p[2] = (total >> 8) as u8;
    p[3] = total as u8;
    p[8] = 64;
    p[9] = 6;
    p[12..16].copy_from_slice(&src);
    p[16..20].copy_from_slice(&dst);
    p[20..22].copy_from_slice(&sp.to_be_bytes());
    p[22..24].copy_from_slice(&dp.to_be_bytes());
    p[24..28].copy_from_slice(&seq.to_be_bytes());
    p[32] = 0x50;
    p[33] = flags;
    p[34] = 0xff;
    p[35] = 0xff;
    p[40..].copy_from_slice(payload);
    p
}

fn run(isn: u32) -> Option<String> {
    let mut flows: TtlCache<FlowKey, TcpFlow> = TtlCache::new(16);
    let processors = HttpProcessors::new();
    let c = [10, 0, 0, 1];
    let s = [10, 0, 0, 2];
    let req = b"GET /index.html HTTP/1.1\r\nHost: example.com\r\nUser-Agent: demo/1.0\r\nAccept: */*\r\n\r\n";
    let (a, b) = req.split_at(20);
    let mut found = None;
    let frames = [
        ipv4_tcp(c, s, 40000, 80, isn, 0x02, &[]),
        ipv4_tcp(c, s, 40000, 80, isn.wrapping_add(1), 0x18, a),
        ipv4_tcp(c, s, 40000, 80, isn.wrapping_add(1).wrapping_add(a.len() as u32), 0x18, b),
    ];
    for f in &frames {
        let ip = Ipv4Packet::new(f).unwrap();
        let out = process_http_ipv4(&ip, &mut flows, &processors).unwrap();
        if let Some(r) = out.http_request {
            found = r.user_agent.clone();
        }
    }
    found
}

#[test]
fn request_reported_for_ordinary_isn() {
    assert_eq!(run(1000).as_deref(), Some("demo/1.0"));
}

#[test]
fn request_reported_when_sequence_space_wraps_inside_the_head() {
    // ISN + 1 + 20 crosses 2^32: the second segment has a numerically smaller sequence number
    assert_eq!(run(u32::MAX - 10).as_deref(), Some("demo/1.0"));
}
