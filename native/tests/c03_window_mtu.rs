//! C03 / D20: a window that is n times (MSS + 40) must be rendered `mtu*n` (p0f), through the
//! public TCP analyzer entry (real build).
use huginn_net_db::tcp::WindowSize;
use huginn_net_tcp::tcp_process::process_tcp_ipv4;
use huginn_net_tcp::uptime::{ConnectionKey, TcpTimestamp};
use pnet::packet::ipv4::Ipv4Packet;
use ttl_cache::TtlCache;

fn syn(mss: u16, window: u16) -> Vec<u8> {
    let mut p = vec![0u8; 44];
    p[0] = 0x45;
    p[3] = 44;
    p[6] = 0x40;
    p[8] = 64;
    p[9] = 6;
    p[12..16].copy_from_slice(&[10, 0, 0, 1]);
    p[16..20].copy_from_slice(&[10, 0, 0, 2]);
    p[20..22].copy_from_slice(&40000u16.to_be_bytes());
    p[22..24].copy_from_slice(&80u16.to_be_bytes());
    p[27] = 1;
    p[32] = 0x60;
    p[33] = 0x02;
    p[34..36].copy_from_slice(&window.to_be_bytes());
    p[40] = 2;
    p[41] = 4;
    p[42..44].copy_from_slice(&mss.to_be_bytes());
    p
}

#[test]
fn window_twice_mss_plus_40_is_mtu_times_2() {
    let frame = syn(1400, 2880);
    let mut table: TtlCache<ConnectionKey, TcpTimestamp> = TtlCache::new(8);
    let ip = Ipv4Packet::new(&frame).unwrap();
    let out = process_tcp_ipv4(&ip, &mut table).unwrap();
    let sig = out.tcp_request.unwrap();
    assert_eq!(sig.matching.wsize, WindowSize::Mtu(2));
}
