"""Harness registry: which #[kani::proof] harnesses decide which property, in which tier,
with which bound.  Read by ./check; kept next to the harness sources in kani/src/cNN.rs."""

CRATES3 = ["tcp", "http", "tls"]


def H(name, tier="quick", bound="", asserts="", **kw):
    d = {"name": name, "tier": tier, "bound": bound, "asserts": asserts}
    d.update(kw)
    return d


PROPERTIES = {}
GENERATORS = {}

# ------------------------------------------------------------------------------------------ C14
_c14 = []
_port_shapes = ["0000", "1000", "0100", "0010", "0001", "1111", "2200", "2010", "0022"]
_ip_shapes = ["00", "10", "01", "21"]
_cfg = ["000", "100", "010", "001", "110", "101", "011", "111"]
for i, c in enumerate(CRATES3):
    t = "quick" if c == "tcp" else "thorough"
    for s in _port_shapes:
        _c14.append(H(f"c14::{c}::c14_port_{s}", "quick" if (c == "tcp" or s in ("1111", "0010")) else "thorough",
                      f"PortFilter via builder: {s[0]} src ports, {s[1]} dst ports, {s[2]} src Range<u16>, {s[3]} dst Range<u16>; all values, any_port, both endpoint ports symbolic",
                      "matches() == oracle; FilterConfig(port only).should_process == rule, both modes"))
    for s in _ip_shapes:
        _c14.append(H(f"c14::{c}::c14_ip_{s}", t if s != "10" else "quick",
                      f"IpFilter: {s[0]} IPv4 + {s[1]} IPv6 addresses, side flags, endpoints (v4 pair or v6 pair) symbolic",
                      "matches() == oracle; config(ip only) == rule"))
        _c14.append(H(f"c14::{c}::c14_net_{s}", t if s != "10" else "quick",
                      f"SubnetFilter: {s[0]} Ipv4Network::new(any addr, 0..=32) + {s[1]} Ipv6Network::new(any addr, 0..=128), side flags, endpoints symbolic",
                      "matches() == CIDR oracle; config(subnet only) == rule"))
    for s in _cfg:
        _c14.append(H(f"c14::{c}::c14_cfg_{s}", "quick" if (c == "tcp" or s == "111") else "thorough",
                      f"FilterConfig presence pattern port/ip/subnet={s}, each present sub-filter with 1 element per list (IPv4 list elements; endpoints v4 or v6), mode and endpoints symbolic",
                      "should_process == documented combination rule"))
    for s in ["011", "111"]:
        _c14.append(H(f"c14::{c}::c14_cfg6_{s}", "thorough",
                      f"FilterConfig presence pattern {s} with IPv6 list elements (1 address, 1 network), endpoints symbolic",
                      "should_process == documented combination rule", timeout_s=3000, mem_gb=24))
PROPERTIES["C14"] = {
    "harnesses": _c14,
    "explanation": "Bounded model checking of the real filter.rs of all three crates: every harness builds a "
                   "filter configuration of a fixed shape with all values symbolic, calls the real "
                   "matches()/should_process() and asserts equality with an independent 40-line oracle of the "
                   "documented rule; CBMC decides it for all values at once.",
    "functions": ["{tcp,http,tls}::filter::PortFilter::{new,source,destination,source_list,destination_list,source_range,destination_range,any_port,matches}",
                  "IpFilter::{new,source_only,destination_only,matches}", "SubnetFilter::{new,source_only,destination_only,matches}",
                  "FilterConfig::{new,mode,with_port_filter,with_ip_filter,with_subnet_filter,should_process}",
                  "ipnetwork::Ipv4Network::{new,contains}", "ipnetwork::Ipv6Network::{new,contains}"],
    "bounds": "lists of <= 2 ports, <= 2 ranges per side, <= 2 IPv4 + 1 IPv6 addresses, <= 2 IPv4 + 1 IPv6 networks; unwind 20",
    "outside": "longer lists; the string builders IpFilter::allow/SubnetFilter::allow (str::parse); mixed-family endpoint pairs",
    "assumptions": ["E1 tracing stub (no subscriber)", "prefix lengths assumed within 0..=32 / 0..=128 (Ipv*Network::new rejects others)"],
}
