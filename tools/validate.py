#!/usr/bin/env python3-vt
import json, jsonschema, glob, sys
jsonschema.validate(json.load(open('/verif/MANIFEST.json')), json.load(open('/root/.vp/MANIFEST.schema.json')))
print('manifest ok')
sch = json.load(open('/root/.vp/EVIDENCE.schema.json'))
for f in sorted(glob.glob('/verif/evidence/*.json')):
    jsonschema.validate(json.load(open(f)), sch); print('evidence ok', f)
m = json.load(open('/verif/MANIFEST.json'))
ids = {c['property_id'] for c in m['checks']} | {n['property_id'] for n in m.get('not_applicable', [])}
props = [json.loads(l)['id'] for l in open('/verif/properties.jsonl')]
missing = [p for p in props if p not in ids]
print('unaccounted properties:', missing)
