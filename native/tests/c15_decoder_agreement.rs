//! C15 / D14 + D21: frames the analyzer decodes but the pre-parse filter decoded differently.
//! Real build, public API only: `packet_parser::parse_packet` + pnet views (what process.rs does)
//! against `raw_filter::apply` with an exact allow-list / deny-list of the analyzer's endpoints.
use huginn_net_tcp::filter::{FilterConfig, FilterMode, IpFilter, PortFilter};
use huginn_net_tcp::packet_parser::{parse_packet, IpPacket};
use huginn_net_tcp::raw_filter;
use pnet::packet::tcp::TcpPacket;
use pnet::packet::Packet;

fn analyzer_endpoints(frame: &[u8]) -> Option<(String, u16, u16)> {
    match parse_packet(frame) {
        IpPacket::Ipv4(ip) => {
            let tcp = TcpPacket::new(ip.payload())?;
            Some((ip.get_source().to_string(), tcp.get_source(), tcp.get_destination()))
        }
        IpPacket::Ipv6(ip) => {
            let tcp = TcpPacket::new(ip.payload())?;
            Some((ip.get_source().to_string(), tcp.get_source(), tcp.get_destination()))
        }
        IpPacket::None => None,
    }
}

fn exact(deny: bool, src: &str, sp: u16, dp: u16) -> FilterConfig {
    FilterConfig::new()
        .mode(if deny { FilterMode::Deny } else { FilterMode::Allow })
        .with_port_filter(PortFilter::new().source(sp).destination(dp))
        .with_ip_filter(IpFilter::new().allow(src).unwrap().source_only())
}

fn ipv4_tcp(ihl: u8) -> Vec<u8> {
    let mut p = vec![0u8; 40];
    p[0] = 0x40 | ihl;
    p[2] = 0;
    p[3] = 40; // total length
    p[8] = 64;
    p[9] = 6; // TCP
    p[12..16].copy_from_slice(&[10, 0, 0, 1]);
    p[16..20].copy_from_slice(&[10, 0, 0, 2]);
    p[20..22].copy_from_slice(&40000u16.to_be_bytes());
    p[22..24].copy_from_slice(&443u16.to_be_bytes());
    p[32] = 0x50; // data offset 5
    p[33] = 0x02; // SYN
    p
}

#[test]
fn d14_ipv4_header_length_below_5() {
    // raw IPv4, IHL = 4: pnet (the analyzer) keeps the TCP header at offset 20
    let frame = ipv4_tcp(4);
    let (src, sp, dp) = analyzer_endpoints(&frame).expect("analyzer decodes the frame");
    assert_eq!((src.as_str(), sp, dp), ("10.0.0.1", 40000, 443));
    assert!(raw_filter::apply(&frame, &exact(false, &src, sp, dp)), "allow-list of the analyzer's endpoints must admit");
    assert!(!raw_filter::apply(&frame, &exact(true, &src, sp, dp)), "deny-list of the analyzer's endpoints must reject");
}

#[test]
fn d21_null_frame_with_ipv4_behind_family_30() {
    // 1e 00 00 00 + IPv4: the parser goes by the version nibble, the filter went by the family
    let mut frame = vec![0x1e, 0, 0, 0];
    frame.extend_from_slice(&ipv4_tcp(5));
    let (src, sp, dp) = analyzer_endpoints(&frame).expect("analyzer decodes the frame");
    assert_eq!((src.as_str(), sp, dp), ("10.0.0.1", 40000, 443));
    assert!(raw_filter::apply(&frame, &exact(false, &src, sp, dp)));
    assert!(!raw_filter::apply(&frame, &exact(true, &src, sp, dp)));
}
