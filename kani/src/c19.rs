//! C19 — uptime estimates are sound for steady clocks and withheld otherwise.
//!
//! Kernels through `uptime::verif_hooks` (feature verif-hooks), the state machine through the
//! public `check_ts_tcp` with the E3 connection-table model and the hook clock (`set_clock_ms`),
//! which is also what the native replay uses.
use huginn_net_tcp::observable::ObservableUptime;
use huginn_net_tcp::tcp_process::{from_client, from_server, is_packet_from_client};
use huginn_net_tcp::uptime::verif_hooks as hk;
use huginn_net_tcp::uptime::{check_ts_tcp, Connection, ConnectionKey, TcpTimestamp};
use std::net::{IpAddr, Ipv4Addr};
use ttl_cache::TtlCache;

// ------------------------------------------------------------------ integer oracle
/// integer guards of a measurement: Some((ticks, backward)) when interval and tick guards pass
pub fn guards(ts_ref: u32, ts_cur: u32, ms: u64) -> Option<u32> {
    if ms < 25 || ms > 600_000 {
        return None;
    }
    let d: u32 = ts_cur.wrapping_sub(ts_ref);
    if d >= 0x8000_0000 {
        // backward movement: the inverted difference counts
        let inv: u32 = u32::MAX - d;
        if inv < 5 {
            return None;
        }
        // within the 100 ms grace period a backward jump may be at most
        // MAX_TSCALE/TSTAMP_GRACE*1000 = 15000 ticks (p0f)
        if ms < 100 && inv > 15_000 {
            return None;
        }
        Some(inv)
    } else {
        if d < 5 {
            return None;
        }
        Some(d)
    }
}

/// Some(ticks) when the pair is a valid measurement: guards pass and 1 Hz <= ticks*1000/ms <= 1500 Hz,
/// in cross-multiplied integer arithmetic
pub fn freq_domain(ts_ref: u32, ts_cur: u32, ms: u64) -> Option<u32> {
    let ticks = guards(ts_ref, ts_cur, ms)?;
    let t = ticks as u64 * 1000;
    if t < ms || t > 1500 * ms {
        return None;
    }
    Some(ticks)
}

fn p0f_round(f: u32) -> u32 {
    if f == 0 {
        1
    } else if f <= 10 {
        f
    } else if f <= 50 {
        (f + 3) / 5 * 5
    } else if f <= 100 {
        (f + 7) / 10 * 10
    } else if f <= 500 {
        (f + 33) / 50 * 50
    } else {
        (f + 67) / 100 * 100
    }
}

/// the three-stage rounding the analyzer applies to a raw frequency
pub fn final_freq(raw: f64) -> f64 {
    if let Some(f) = hk::guess(raw, 1000.0, 0.10) {
        f
    } else if let Some(f) = hk::guess(raw, 100.0, 0.10) {
        f
    } else {
        hk::round_p0f_style(raw) as f64
    }
}

/// documented grid: the 1000 Hz and 100 Hz families (10 % tolerance), otherwise the p0f ranges;
/// a result that snaps to another multiple of 100/1000 within 10 % is accepted as well.
fn on_documented_grid(raw: f64, r: f64) -> bool {
    if (raw - 1000.0).abs() <= 100.0 {
        return r == 1000.0;
    }
    if (raw - 100.0).abs() <= 10.0 {
        return r == 100.0;
    }
    if r == p0f_round(raw as u32) as f64 {
        return true;
    }
    // multiple of 100 within 10 % of the raw rate
    let k = (r / 100.0) as u32;
    r >= 100.0 && (k as f64) * 100.0 == r && (raw - r).abs() <= 0.10 * r
}

// ------------------------------------------------------------------ [F] frequency kernel
/// integer guards, everything symbolic: a pair the guards reject is withheld (these paths return
/// before any floating point is computed)
#[kani::proof]
#[kani::stub(alloc::fmt::format, crate::util::stub_format)]
pub fn c19_freq_guards() {
    let ts_ref: u32 = kani::any();
    let ts_cur: u32 = kani::any();
    let t_ref: u64 = kani::any();
    kani::assume(t_ref < (1u64 << 44));
    let ms: u64 = kani::any();
    kani::assume(ms <= 700_000);
    kani::assume(guards(ts_ref, ts_cur, ms).is_none());
    let reference = TcpTimestamp::new(ts_ref, t_ref);
    let current = TcpTimestamp::new(ts_cur, t_ref + ms);
    let got = hk::frequency_p0f_style(&current, &reference);
    kani::cover!(ms >= 25 && ms <= 600_000, "tick guard");
    kani::cover!(ms > 600_000, "interval too long");
    assert!(got.is_err(), "C19 nothing is reported outside 25ms..600s / below 5 ticks / excessive backward jump");
    core::mem::forget(got);
}

/// rate limits for a concrete interval, all timestamp pairs: reported iff guards pass and
/// 1 Hz <= ticks*1000/ms <= 1500 Hz (integer oracle), with the value ticks*1000/ms.
/// (With a symbolic interval the f64 division against the cross-multiplied oracle, or against a
/// second divider, did not finish in 25 min; with a concrete one it takes seconds.)
macro_rules! freq_rate_harness {
    ($name:ident, $ms:expr) => {
        #[kani::proof]
        #[kani::stub(alloc::fmt::format, crate::util::stub_format)]
        pub fn $name() {
            let ts_ref: u32 = kani::any();
            let ts_cur: u32 = kani::any();
            let ms: u64 = $ms;
            let reference = TcpTimestamp::new(ts_ref, 1_700_000_000_000);
            let current = TcpTimestamp::new(ts_cur, 1_700_000_000_000 + ms);
            let got = hk::frequency_p0f_style(&current, &reference);
            let want = freq_domain(ts_ref, ts_cur, ms);
            kani::cover!(got.is_ok() || ms < 25 || ms > 600_000, "accepted");
            kani::cover!((got.is_ok() && ts_cur < ts_ref && ts_ref - ts_cur < 100_000) || ms < 25 || ms > 600_000, "backward accepted");
            match &got {
                Ok(f) => {
                    assert!(want.is_some(), "C19 frequency reported only for 25ms..600s, >=5 ticks, 1..1500 Hz");
                    // whole part of the rate, in integers (a second f64 divider in the harness made
                    // some intervals undecided within 300 s; the quotient of two integers below
                    // 2^42 / 2^20 is never within an ulp of a whole number unless it is one)
                    let whole = (want.unwrap_or(0) as u64 * 1000) / ms;
                    assert!((*f as u64) == whole, "C19 raw frequency == ticks*1000/ms");
                }
                Err(_) => {
                    assert!(want.is_none(), "C19 a steady in-range pair is not withheld");
                }
            }
            core::mem::forget(got);
        }
    };
}
freq_rate_harness!(c19_freq_rate_ms_24, 24);
freq_rate_harness!(c19_freq_rate_ms_25, 25);
freq_rate_harness!(c19_freq_rate_ms_26, 26);
freq_rate_harness!(c19_freq_rate_ms_99, 99);
freq_rate_harness!(c19_freq_rate_ms_100, 100);
freq_rate_harness!(c19_freq_rate_ms_101, 101);
freq_rate_harness!(c19_freq_rate_ms_1000, 1000);
freq_rate_harness!(c19_freq_rate_ms_1001, 1001);
freq_rate_harness!(c19_freq_rate_ms_7777, 7777);
freq_rate_harness!(c19_freq_rate_ms_30000, 30_000);
freq_rate_harness!(c19_freq_rate_ms_30001, 30_001);
freq_rate_harness!(c19_freq_rate_ms_333333, 333_333);
freq_rate_harness!(c19_freq_rate_ms_599999, 599_999);
freq_rate_harness!(c19_freq_rate_ms_600000, 600_000);
freq_rate_harness!(c19_freq_rate_ms_600001, 600_001);

/// earlier arrival time of the later segment (clock went backwards): ms saturates to 0 → withheld
#[kani::proof]
#[kani::stub(alloc::fmt::format, crate::util::stub_format)]
pub fn c19_frequency_time_reversal() {
    let t_ref: u64 = kani::any();
    let t_cur: u64 = kani::any();
    kani::assume(t_cur < t_ref);
    let reference = TcpTimestamp::new(kani::any(), t_ref);
    let current = TcpTimestamp::new(kani::any(), t_cur);
    let got = hk::frequency_p0f_style(&current, &reference);
    assert!(got.is_err(), "C19 nothing is reported when the arrival clock went backwards");
    core::mem::forget(got);
}

// ------------------------------------------------------------------ [F] rounding to the grid
/// raw rate = ticks*1000/ms over every valid (ticks, ms) of a sub-range; the final frequency is on
/// the documented grid.  `LO..=HI` bounds the raw rate so that one harness stays small.
fn rounding_on_grid(lo: f64, hi: f64) {
    let ticks: u32 = kani::any();
    let ms: u32 = kani::any();
    kani::assume(ms >= 25 && ms <= 600_000);
    kani::assume(ticks >= 5 && ticks <= 900_000);
    let raw = (ticks as f64 * 1000.0) / (ms as f64);
    kani::assume(raw >= lo && raw <= hi);
    let r = final_freq(raw);
    kani::cover!(r != raw, "rounded");
    assert!(r >= 1.0 && r <= 1500.0, "C19 final frequency within 1..1500 Hz");
    assert!((r as u32) as f64 == r, "C19 final frequency is integral");
    assert!(on_documented_grid(raw, r), "C19 final frequency == rate rounded to the documented grid");
}

#[kani::proof]
#[kani::stub(alloc::fmt::format, crate::util::stub_format)]
pub fn c19_rounding_grid_1_to_89() {
    rounding_on_grid(1.0, 89.99)
}
#[kani::proof]
#[kani::stub(alloc::fmt::format, crate::util::stub_format)]
pub fn c19_rounding_grid_90_to_110() {
    rounding_on_grid(90.0, 110.0)
}
#[kani::proof]
#[kani::stub(alloc::fmt::format, crate::util::stub_format)]
pub fn c19_rounding_grid_110_to_899() {
    rounding_on_grid(110.01, 899.99)
}
#[kani::proof]
#[kani::stub(alloc::fmt::format, crate::util::stub_format)]
pub fn c19_rounding_grid_900_to_1100() {
    rounding_on_grid(900.0, 1100.0)
}
#[kani::proof]
#[kani::stub(alloc::fmt::format, crate::util::stub_format)]
pub fn c19_rounding_grid_1100_to_1500() {
    rounding_on_grid(1100.01, 1500.0)
}

// ------------------------------------------------------------------ [F] uptime split
fn any_grid_freq() -> u32 {
    let f: u32 = kani::any();
    kani::assume(f >= 1 && f <= 1500);
    kani::assume(p0f_round(f) == f || f == 1000 || f == 100);
    f
}

/// days, wrap period and the bounds hours < 24, minutes < 60, all timestamps, one harness per
/// grid frequency (symbolic frequency: > 25 min).  The exact hours/minutes values go through
/// f64 `%`, which CBMC models inexactly (counterexamples such as ts = 23 760 000 at 1100 Hz =
/// exactly 6 h did not reproduce natively), so they are outside the claim.
macro_rules! uptime_split_harness {
    ($name:ident, $f:expr) => {
        #[kani::proof]
        pub fn $name() {
            let ts: u32 = kani::any();
            let f: u32 = $f;
            let u: ObservableUptime = hk::uptime_from_frequency(ts, f as f64);
            let secs: u64 = (ts / f) as u64; // whole seconds of ts/f
            let days = secs / 86_400;
            kani::cover!(u.days >= 33, "long uptime");
            assert!(u.hours < 24, "C19 hours < 24");
            assert!(u.min < 60, "C19 minutes < 60");
            assert!(u.days as u64 == days, "C19 uptime days == floor(ts / f / 86400)");
            assert!(u.freq == f as f64, "C19 reported frequency is the rounded one");
            // wrap period: 2^32 ticks at f Hz in whole days
            let wrap = (1u64 << 32) / (f as u64 * 86_400);
            assert!(u.up_mod_days as u64 == wrap, "C19 wrap period == floor(2^32 / (f * 86400)) days");
        }
    };
}
uptime_split_harness!(c19_uptime_split_f2, 2);
uptime_split_harness!(c19_uptime_split_f7, 7);
uptime_split_harness!(c19_uptime_split_f10, 10);
uptime_split_harness!(c19_uptime_split_f15, 15);
uptime_split_harness!(c19_uptime_split_f50, 50);
uptime_split_harness!(c19_uptime_split_f60, 60);
uptime_split_harness!(c19_uptime_split_f100, 100);
uptime_split_harness!(c19_uptime_split_f150, 150);
uptime_split_harness!(c19_uptime_split_f250, 250);
uptime_split_harness!(c19_uptime_split_f500, 500);
uptime_split_harness!(c19_uptime_split_f600, 600);
uptime_split_harness!(c19_uptime_split_f1000, 1000);
uptime_split_harness!(c19_uptime_split_f1100, 1100);
uptime_split_harness!(c19_uptime_split_f1500, 1500);

// ------------------------------------------------------------------ labelling rule
#[kani::proof]
#[kani::stub(alloc::fmt::format, crate::util::stub_format)]
pub fn c19_label_rule() {
    let flags: u8 = kani::any();
    let sp: u16 = kani::any();
    let dp: u16 = kani::any();
    let syn = flags & 0x02 != 0;
    let ack = flags & 0x10 != 0;
    let want = if syn && !ack {
        true
    } else if syn && ack {
        false
    } else {
        sp > 1024 && dp <= 1024
    };
    assert!(from_client(flags) == (syn && !ack), "C19 from_client == SYN without ACK");
    assert!(from_server(flags) == (syn && ack), "C19 from_server == SYN+ACK");
    assert!(
        is_packet_from_client(flags, sp, dp) == want,
        "C19 labelling: handshake flags, otherwise ephemeral -> well-known (<=1024) port"
    );
}

// ------------------------------------------------------------------ [S] state machine
fn conn(sp: u16, dp: u16) -> Connection {
    Connection {
        src_ip: IpAddr::V4(Ipv4Addr::new(10, 0, 0, 1)),
        src_port: sp,
        dst_ip: IpAddr::V4(Ipv4Addr::new(10, 0, 0, 2)),
        dst_port: dp,
    }
}

static mut UPTIME_STUB_USED: bool = false;

/// stand-in for the private `calculate_uptime_from_frequency` inside the state-machine harnesses
/// (the real one is decided on its own in c19_uptime_split_*): records its arguments in the result
pub fn stub_uptime(ts_val: u32, freq_hz: f64) -> ObservableUptime {
    unsafe { UPTIME_STUB_USED = true }
    ObservableUptime { days: ts_val, hours: 0, min: 0, up_mod_days: 0, freq: freq_hz }
}

/// stand-ins for the rounding kernels inside the three-segment harnesses (decided on their own in
/// c19_rounding_grid_*): no family guess, identity rounding
pub fn stub_guess(_raw: f64, _base: f64, _tol: f64) -> Option<f64> {
    None
}
pub fn stub_round(freq: f64) -> u32 {
    freq as u32
}

fn set_clocks(ms: u64) {
    hk::set_clock_ms(ms);
    ttl_cache::set_now_ms(ms);
}

/// two segments of one endpoint `ms` apart (concrete), both TSvals and the side symbolic: the
/// first stores, the second reports exactly when the pair is a valid measurement, in the slot
/// chosen by `from_client`, and the estimate is the kernels' estimate for the later timestamp
fn state_two_segments(ms: u64, fc: bool) {
    let mut table: TtlCache<ConnectionKey, TcpTimestamp> = TtlCache::new(4);
    let c = conn(40000, 80);
    let t0: u64 = 1_700_000_000_000;
    let ts0: u32 = kani::any();
    let ts1: u32 = kani::any();
    set_clocks(t0);
    let r0 = check_ts_tcp(&mut table, &c, fc, ts0);
    assert!(r0.0.is_none() && r0.1.is_none(), "C19 first segment reports nothing");
    set_clocks(t0 + ms);
    let r1 = check_ts_tcp(&mut table, &c, fc, ts1);
    let want = freq_domain(ts0, ts1, ms);
    kani::cover!(r1.0.is_some() || want.is_none(), "client estimate");
    kani::cover!(r1.1.is_some() || want.is_none(), "server estimate");
    let (mine, other) = if fc { (&r1.0, &r1.1) } else { (&r1.1, &r1.0) };
    assert!(other.is_none(), "C19 estimate goes to the slot of the sending side only");
    assert!(mine.is_some() == want.is_some(), "C19 estimate reported iff the pair is a steady in-range measurement");
    if let Some(u) = mine {
        // (uptime kernel stubbed: days carries the timestamp it was called with)
        // (stubs are not applied in the native replay; there the real kernel answers)
        if unsafe { UPTIME_STUB_USED } {
            assert!(u.days == ts1, "C19 uptime is computed from the later timestamp");
        }
        assert!(u.freq >= 1.0 && u.freq <= 1500.0, "C19 reported frequency within 1..1500 Hz");
    }
    core::mem::forget(table);
}

macro_rules! state_two_harness {
    ($name:ident, $ms:expr, $fc:expr) => {
        #[kani::proof]
        #[kani::stub(alloc::fmt::format, crate::util::stub_format)]
        #[kani::stub(huginn_net_tcp::uptime::calculate_uptime_from_frequency, stub_uptime)]
        #[kani::unwind(6)]
        pub fn $name() {
            state_two_segments($ms, $fc)
        }
    };
}
state_two_harness!(c19_state_two_ms_10_cli, 10, true);
state_two_harness!(c19_state_two_ms_10_srv, 10, false);
state_two_harness!(c19_state_two_ms_40_cli, 40, true);
state_two_harness!(c19_state_two_ms_40_srv, 40, false);
state_two_harness!(c19_state_two_ms_1000_cli, 1000, true);
state_two_harness!(c19_state_two_ms_1000_srv, 1000, false);
state_two_harness!(c19_state_two_ms_29000_cli, 29_000, true);
state_two_harness!(c19_state_two_ms_29000_srv, 29_000, false);
state_two_harness!(c19_state_two_ms_31000_cli, 31_000, true);
state_two_harness!(c19_state_two_ms_31000_srv, 31_000, false);
state_two_harness!(c19_state_two_ms_600000_cli, 600_000, true);
state_two_harness!(c19_state_two_ms_600000_srv, 600_000, false);
state_two_harness!(c19_state_two_ms_600001_cli, 600_001, true);
state_two_harness!(c19_state_two_ms_600001_srv, 600_001, false);

/// after an out-of-range pair the endpoint is not re-evaluated while its entry lives (30 s)
fn state_bad_marker(ms1: u64, ms2: u64, fc: bool) {
    let mut table: TtlCache<ConnectionKey, TcpTimestamp> = TtlCache::new(4);
    let c = conn(40000, 80);
    let t0: u64 = 1_700_000_000_000;
    let ts0: u32 = kani::any();
    let ts1: u32 = kani::any();
    let ts2: u32 = kani::any();
    kani::assume(freq_domain(ts0, ts1, ms1).is_none());
    set_clocks(t0);
    let _ = check_ts_tcp(&mut table, &c, fc, ts0);
    set_clocks(t0 + ms1);
    let r1 = check_ts_tcp(&mut table, &c, fc, ts1);
    assert!(r1.0.is_none() && r1.1.is_none(), "C19 out-of-range pair yields nothing");
    set_clocks(t0 + ms1 + ms2);
    let r2 = check_ts_tcp(&mut table, &c, fc, ts2);
    kani::cover!(freq_domain(ts1, ts2, ms2).is_some(), "third segment would be a valid pair with the second");
    kani::cover!(freq_domain(ts0, ts2, ms1 + ms2).is_some(), "third segment would be a valid pair with the first");
    assert!(r2.0.is_none() && r2.1.is_none(), "C19 endpoint is not re-evaluated after an out-of-range pair");
    core::mem::forget(table);
}

macro_rules! state_bad_harness {
    ($name:ident, $ms1:expr, $ms2:expr, $fc:expr) => {
        #[kani::proof]
        #[kani::stub(alloc::fmt::format, crate::util::stub_format)]
        #[kani::stub(huginn_net_tcp::uptime::calculate_uptime_from_frequency, stub_uptime)]
        #[kani::unwind(6)]
        pub fn $name() {
            state_bad_marker($ms1, $ms2, $fc)
        }
    };
}
state_bad_harness!(c19_state_bad_10_100_cli, 10, 100, true);
state_bad_harness!(c19_state_bad_10_100_srv, 10, 100, false);
state_bad_harness!(c19_state_bad_1000_1000_cli, 1000, 1000, true);
state_bad_harness!(c19_state_bad_1000_1000_srv, 1000, 1000, false);
state_bad_harness!(c19_state_bad_10_29000_cli, 10, 29_000, true);
state_bad_harness!(c19_state_bad_10_29000_srv, 10, 29_000, false);

/// the two directions of a connection are tracked separately: a segment of the other direction
/// in between (same tuple with the opposite role, or the reversed tuple) does not disturb it
fn state_directions(ms: u64, mid: u64, same_tuple: bool, fc: bool) {
    let mut table: TtlCache<ConnectionKey, TcpTimestamp> = TtlCache::new(4);
    let c = conn(40000, 80);
    let t0: u64 = 1_700_000_000_000;
    let ts0: u32 = kani::any();
    let ts1: u32 = kani::any();
    let other_ts: u32 = kani::any();
    set_clocks(t0);
    let _ = check_ts_tcp(&mut table, &c, fc, ts0);
    set_clocks(t0 + mid);
    let rc = if same_tuple {
        conn(40000, 80)
    } else {
        Connection { src_ip: c.dst_ip, src_port: 80, dst_ip: c.src_ip, dst_port: 40000 }
    };
    let ro = check_ts_tcp(&mut table, &rc, !fc, other_ts);
    assert!(ro.0.is_none() && ro.1.is_none(), "C19 first segment of the other direction reports nothing");
    set_clocks(t0 + ms);
    let r1 = check_ts_tcp(&mut table, &c, fc, ts1);
    let want = freq_domain(ts0, ts1, ms);
    let (mine, other) = if fc { (&r1.0, &r1.1) } else { (&r1.1, &r1.0) };
    kani::cover!(mine.is_some(), "estimate despite interleaved other direction");
    assert!(other.is_none(), "C19 estimate goes to the slot of the sending side only");
    assert!(mine.is_some() == want.is_some(), "C19 directions are tracked separately");
    core::mem::forget(table);
}

macro_rules! state_dir_harness {
    ($name:ident, $ms:expr, $mid:expr, $same:expr, $fc:expr) => {
        #[kani::proof]
        #[kani::stub(alloc::fmt::format, crate::util::stub_format)]
        #[kani::stub(huginn_net_tcp::uptime::calculate_uptime_from_frequency, stub_uptime)]
        #[kani::unwind(6)]
        pub fn $name() {
            state_directions($ms, $mid, $same, $fc)
        }
    };
}
state_dir_harness!(c19_state_dir_same_tuple_cli, 1000, 400, true, true);
state_dir_harness!(c19_state_dir_same_tuple_srv, 1000, 400, true, false);
state_dir_harness!(c19_state_dir_reversed_tuple_cli, 1000, 400, false, true);
state_dir_harness!(c19_state_dir_reversed_tuple_srv, 1000, 400, false, false);

