//! C13 — every bundled TCP signature is reachable by the traffic it describes (composition lemma).
//! For each class of bundled signatures (generated from the real Database::load_default by
//! tools/gen-tables on every run) and ALL admissible concretisations — hop count 0..30, any MSS when
//! `*`, any scale when `*`, IP version when `*`, payload class when `*`, the window derived from the
//! signature's window form — the observation assembled from the REAL extractors
//! (`calculate_ttl`, `detect_win_multiplicator`; layout, quirks copied from the signature: that the
//! header walk renders them is C03's business) has distance 0 to the signature.
use huginn_net_db::db_matching_trait::DatabaseSignature;
use huginn_net_db::observable_signals::TcpObservation;
use huginn_net_db::tcp::{self, IpVersion, PayloadSize, Quirk, TcpOption, Ttl, WindowSize};
use huginn_net_tcp::ttl::calculate_ttl;
use huginn_net_tcp::window_size::detect_win_multiplicator;

#[allow(clippy::too_many_arguments)]
fn reachable(
    sver: IpVersion,
    sttl: Ttl,
    olen: u8,
    smss: Option<u16>,
    swin: WindowSize,
    sws: Option<u8>,
    spc: PayloadSize,
    has_ts: bool,
    exws: bool,
    layout: &[TcpOption],
    quirks: &[Quirk],
) {
    let sig = tcp::Signature {
        version: sver,
        ittl: sttl.clone(),
        olen,
        mss: smss,
        wsize: swin.clone(),
        wscale: sws,
        olayout: layout.to_vec(),
        quirks: quirks.to_vec(),
        pclass: spc,
    };
    // ---- an admissible packet
    let v6 = match sver {
        IpVersion::V4 => false,
        IpVersion::V6 => true,
        IpVersion::Any => kani::any(),
    };
    let over = if v6 { IpVersion::V6 } else { IpVersion::V4 };
    let hops: u8 = kani::any();
    kani::assume(hops <= 30);
    // the TTL the packet arrives with: the signature's initial TTL minus the hops; for the
    // `nnn-` form (initial TTL not above nnn) any TTL up to nnn
    let initial = match &sttl {
        Ttl::Value(i) | Ttl::Bad(i) | Ttl::Guess(i) => *i,
        Ttl::Distance(t, d) => t.saturating_add(*d),
    };
    kani::assume(hops < initial);
    let observed_ttl = initial - hops;
    let ottl = calculate_ttl(observed_ttl);
    let has_mss_opt = layout.contains(&TcpOption::Mss);
    let mss: u16 = match smss {
        Some(m) => m,
        None => {
            let m: u16 = kani::any();
            kani::assume(m >= 64);
            m
        }
    };
    let omss = if has_mss_opt { Some(mss) } else { None };
    let has_ws_opt = layout.contains(&TcpOption::Ws);
    let ws: u8 = match sws {
        Some(s) => s,
        None => {
            let s: u8 = kani::any();
            kani::assume((s > 14) == exws);
            s
        }
    };
    let ows = if has_ws_opt { Some(ws) } else { None };
    let hdr: u16 = if v6 { 60 } else { 40 + olen as u16 };
    let window: u16 = match &swin {
        WindowSize::Mss(n) => {
            let w = *n as u32 * mss as u32;
            kani::assume(w <= 65_535);
            w as u16
        }
        WindowSize::Mtu(n) => {
            let w = *n as u32 * (mss as u32 + if v6 { 60 } else { 40 });
            kani::assume(w <= 65_535);
            w as u16
        }
        WindowSize::Mod(m) => {
            let k: u16 = kani::any();
            kani::assume(k >= 1);
            let w = k as u32 * *m as u32;
            kani::assume(w <= 65_535);
            w as u16
        }
        WindowSize::Value(v) => *v,
        WindowSize::Any => kani::any(),
    };
    let owin = detect_win_multiplicator(window, if has_mss_opt { mss } else { 0 }, hdr, has_ts, &over);
    let opc = match spc {
        PayloadSize::Any => {
            if kani::any() {
                PayloadSize::Zero
            } else {
                PayloadSize::NonZero
            }
        }
        p => p,
    };
    let obs = TcpObservation {
        version: over,
        ittl: ottl.clone(),
        olen,
        mss: omss,
        wsize: owin.clone(),
        wscale: ows,
        olayout: layout.to_vec(),
        quirks: quirks.to_vec(),
        pclass: opc,
    };
    kani::cover!(hops == 30, "30 hops away");
    // per component, so that a failure names the component
    let dt = ottl.distance_ttl(&sttl);
    let dw = owin.distance_window_size(&swin, omss);
    assert!(dt == Some(0), "C13 ttl: conforming packet at 0..30 hops matches the signature's initial TTL");
    assert!(dw == Some(0), "C13 window: conforming window is rendered in a form the signature accepts with 0");
    let d = sig.calculate_distance(&obs);
    assert!(d == Some(0), "C13 conforming traffic has distance 0 to its own signature");
    core::mem::forget(sig);
    core::mem::forget(obs);
}

macro_rules! sig_harness {
    ($name:ident, $ver:expr, $ttl:expr, $olen:expr, $mss:expr, $win:expr, $ws:expr, $pc:expr, $ts:expr, $exws:expr, $layout:expr, $quirks:expr) => {
        #[kani::proof]
        #[kani::unwind(20)]
        pub fn $name() {
            reachable($ver, $ttl, $olen, $mss, $win, $ws, $pc, $ts, $exws, $layout, $quirks)
        }
    };
}

include!("gen/c13_sigs.rs");
