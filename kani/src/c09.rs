//! C09 — HTTP stream reassembly kernel: `TcpFlow` segment store + `get_full_data` (through the
//! verif hooks), for every initial sequence number: contiguous segments in any arrival order give
//! the stream-order concatenation; a gap or a retransmission must not produce other bytes.
//! Parse-after-each-segment, "reported once", direction attribution need HttpProcessors: outside.
use huginn_net_http::http_process::TcpFlow;
use std::net::{IpAddr, Ipv4Addr};

fn new_flow(isn: u32) -> TcpFlow {
    TcpFlow::verif_new(
        IpAddr::V4(Ipv4Addr::new(10, 0, 0, 1)),
        40000,
        IpAddr::V4(Ipv4Addr::new(10, 0, 0, 2)),
        80,
        isn,
        &[],
    )
}

/// three contiguous segments of 2, 1 and 2 bytes starting at `isn + 1` (client) or at an
/// independent server sequence origin, pushed in the arrival order `ORDER` (a permutation of 0,1,2)
fn three_segments(is_client: bool, order: [usize; 3], wrap: bool) {
    let isn: u32 = kani::any();
    let bytes: [u8; 5] = kani::any();
    let origin: u32 = if is_client { isn } else { kani::any() };
    let first = origin.wrapping_add(1);
    // does the sequence space wrap inside the stream (first .. first+5)?
    let wraps = first > u32::MAX - 5;
    kani::assume(wraps == wrap);
    let segs: [(u32, &[u8]); 3] = [
        (first, &bytes[0..2]),
        (first.wrapping_add(2), &bytes[2..3]),
        (first.wrapping_add(3), &bytes[3..5]),
    ];
    let mut flow = new_flow(isn);
    let mut i = 0;
    while i < 3 {
        let (seq, data) = segs[order[i]];
        flow.verif_push(is_client, seq, data);
        i += 1;
    }
    let full = flow.verif_full_data(is_client);
    kani::cover!(full.len() == 5, "five bytes assembled");
    assert!(full.len() == 5, "C09 all bytes of contiguous segments are assembled");
    let mut k = 0;
    while k < 5 {
        assert!(full[k] == bytes[k], "C09 contiguous segments are assembled in stream order for every initial sequence number and arrival order");
        k += 1;
    }
    core::mem::forget(full);
    core::mem::forget(flow);
}

macro_rules! order_harness {
    ($name:ident, $client:expr, $order:expr, $wrap:expr) => {
        #[kani::proof]
        #[kani::unwind(8)]
        pub fn $name() {
            three_segments($client, $order, $wrap)
        }
    };
}
order_harness!(c09_cli_012_nowrap, true, [0, 1, 2], false);
order_harness!(c09_cli_021_nowrap, true, [0, 2, 1], false);
order_harness!(c09_cli_102_nowrap, true, [1, 0, 2], false);
order_harness!(c09_cli_120_nowrap, true, [1, 2, 0], false);
order_harness!(c09_cli_201_nowrap, true, [2, 0, 1], false);
order_harness!(c09_cli_210_nowrap, true, [2, 1, 0], false);
order_harness!(c09_srv_012_nowrap, false, [0, 1, 2], false);
order_harness!(c09_srv_210_nowrap, false, [2, 1, 0], false);
order_harness!(c09_srv_120_nowrap, false, [1, 2, 0], false);
// sequence space wraps inside the stream
order_harness!(c09_cli_012_wrap, true, [0, 1, 2], true);
order_harness!(c09_cli_210_wrap, true, [2, 1, 0], true);
order_harness!(c09_cli_102_wrap, true, [1, 0, 2], true);
order_harness!(c09_srv_012_wrap, false, [0, 1, 2], true);
order_harness!(c09_srv_201_wrap, false, [2, 0, 1], true);

/// a gap: the middle segment has not arrived; what is assembled must not run across the hole
fn gap(is_client: bool) {
    let isn: u32 = kani::any();
    let bytes: [u8; 5] = kani::any();
    let origin: u32 = if is_client { isn } else { kani::any() };
    let first = origin.wrapping_add(1);
    kani::assume(first <= u32::MAX - 5);
    let mut flow = new_flow(isn);
    flow.verif_push(is_client, first, &bytes[0..2]);
    flow.verif_push(is_client, first.wrapping_add(3), &bytes[3..5]);
    let full = flow.verif_full_data(is_client);
    assert!(full.len() <= 2, "C09 bytes behind a gap are not joined to the bytes before it");
    core::mem::forget(full);
    core::mem::forget(flow);
}

#[kani::proof]
#[kani::unwind(8)]
pub fn c09_gap_cli() {
    gap(true)
}
#[kani::proof]
#[kani::unwind(8)]
pub fn c09_gap_srv() {
    gap(false)
}

/// a retransmitted segment must not appear twice in the stream
#[kani::proof]
#[kani::unwind(8)]
pub fn c09_retransmission_cli() {
    let isn: u32 = kani::any();
    let bytes: [u8; 4] = kani::any();
    let first = isn.wrapping_add(1);
    kani::assume(first <= u32::MAX - 5);
    let mut flow = new_flow(isn);
    flow.verif_push(true, first, &bytes[0..2]);
    flow.verif_push(true, first, &bytes[0..2]);
    flow.verif_push(true, first.wrapping_add(2), &bytes[2..4]);
    let full = flow.verif_full_data(true);
    assert!(full.len() == 4, "C09 a retransmitted segment is not assembled twice");
    core::mem::forget(full);
    core::mem::forget(flow);
}
