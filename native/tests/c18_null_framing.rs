//! C18 / D16: NULL/loopback-framed packets (which the analyzers decode) must be dispatched by
//! connection identity, not by a hash of the whole frame. Real build, public API.
use huginn_net_http::packet_hash::hash_flow as http_hash;
use huginn_net_tcp::packet_hash::hash_source_ip;
use huginn_net_tls::packet_hash::hash_flow as tls_hash;

fn null_ipv4_tcp(payload_byte: u8) -> Vec<u8> {
    let mut p = vec![0u8; 4 + 41];
    p[0] = 0x1e; // the packet parser's NULL signature
    let ip = &mut p[4..];
    ip[0] = 0x45;
    ip[3] = 41;
    ip[8] = 64;
    ip[9] = 6;
    ip[12..16].copy_from_slice(&[10, 0, 0, 1]);
    ip[16..20].copy_from_slice(&[10, 0, 0, 2]);
    ip[20..22].copy_from_slice(&40000u16.to_be_bytes());
    ip[22..24].copy_from_slice(&443u16.to_be_bytes());
    ip[32] = 0x50;
    ip[33] = 0x18;
    ip[40] = payload_byte;
    p
}

#[test]
fn same_connection_different_payload_same_worker() {
    let a = null_ipv4_tcp(0x16);
    let b = null_ipv4_tcp(0x17);
    assert_eq!(hash_source_ip(&a), hash_source_ip(&b), "tcp: source address only");
    for n in [2usize, 3, 4, 7, 8, 16, 64] {
        assert_eq!(http_hash(&a, n), http_hash(&b, n), "http, {n} workers");
        assert!(tls_hash(&a, n).is_some(), "tls: a frame the analyzer decodes gets a worker");
        assert_eq!(tls_hash(&a, n), tls_hash(&b, n), "tls, {n} workers");
    }
}
