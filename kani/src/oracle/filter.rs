//! C14 oracle: the documented filter rule as a pure function over plain data.
use std::net::IpAddr;

#[derive(Clone, Copy)]
pub struct PortSpec<'a> {
    pub src_ports: &'a [u16],
    pub dst_ports: &'a [u16],
    /// half-open ranges [start, end) exactly as handed to the builder
    pub src_ranges: &'a [(u16, u16)],
    pub dst_ranges: &'a [(u16, u16)],
    pub any_port: bool,
}

fn in_list(ports: &[u16], ranges: &[(u16, u16)], p: u16) -> bool {
    let mut hit = false;
    for q in ports {
        if *q == p {
            hit = true;
        }
    }
    for (s, e) in ranges {
        // half-open: s <= p < e
        if *s <= p && p < *e {
            hit = true;
        }
    }
    hit
}

pub fn port_matches(f: &PortSpec, sp: u16, dp: u16) -> bool {
    if f.any_port {
        in_list(f.src_ports, f.src_ranges, sp)
            || in_list(f.dst_ports, f.dst_ranges, sp)
            || in_list(f.src_ports, f.src_ranges, dp)
            || in_list(f.dst_ports, f.dst_ranges, dp)
    } else {
        let src_constrained = !f.src_ports.is_empty() || !f.src_ranges.is_empty();
        let dst_constrained = !f.dst_ports.is_empty() || !f.dst_ranges.is_empty();
        (!src_constrained || in_list(f.src_ports, f.src_ranges, sp))
            && (!dst_constrained || in_list(f.dst_ports, f.dst_ranges, dp))
    }
}

#[derive(Clone, Copy)]
pub struct AddrSpec<'a> {
    pub v4: &'a [u32],
    pub v6: &'a [u128],
    pub check_src: bool,
    pub check_dst: bool,
}

fn addr_listed(f: &AddrSpec, a: &IpAddr) -> bool {
    let mut hit = false;
    match a {
        IpAddr::V4(x) => {
            let x = u32::from(*x);
            for y in f.v4 {
                if *y == x {
                    hit = true;
                }
            }
        }
        IpAddr::V6(x) => {
            let x = u128::from(*x);
            for y in f.v6 {
                if *y == x {
                    hit = true;
                }
            }
        }
    }
    hit
}

pub fn addr_matches(f: &AddrSpec, s: &IpAddr, d: &IpAddr) -> bool {
    (f.check_src && addr_listed(f, s)) || (f.check_dst && addr_listed(f, d))
}

#[derive(Clone, Copy)]
pub struct SubnetSpec<'a> {
    /// (network address as given, prefix length)
    pub v4: &'a [(u32, u8)],
    pub v6: &'a [(u128, u8)],
    pub check_src: bool,
    pub check_dst: bool,
}

pub fn in_cidr4(net: u32, prefix: u8, a: u32) -> bool {
    if prefix == 0 {
        true
    } else {
        ((net ^ a) >> (32 - prefix as u32)) == 0
    }
}

pub fn in_cidr6(net: u128, prefix: u8, a: u128) -> bool {
    if prefix == 0 {
        true
    } else {
        ((net ^ a) >> (128 - prefix as u32)) == 0
    }
}

fn subnet_listed(f: &SubnetSpec, a: &IpAddr) -> bool {
    let mut hit = false;
    match a {
        IpAddr::V4(x) => {
            let x = u32::from(*x);
            for (n, p) in f.v4 {
                if in_cidr4(*n, *p, x) {
                    hit = true;
                }
            }
        }
        IpAddr::V6(x) => {
            let x = u128::from(*x);
            for (n, p) in f.v6 {
                if in_cidr6(*n, *p, x) {
                    hit = true;
                }
            }
        }
    }
    hit
}

pub fn subnet_matches(f: &SubnetSpec, s: &IpAddr, d: &IpAddr) -> bool {
    (f.check_src && subnet_listed(f, s)) || (f.check_dst && subnet_listed(f, d))
}

/// The documented combination rule.
pub fn should_process(
    deny: bool,
    port: Option<bool>,
    addr: Option<bool>,
    subnet: Option<bool>,
) -> bool {
    if port.is_none() && addr.is_none() && subnet.is_none() {
        return true;
    }
    let all = port.unwrap_or(true) && addr.unwrap_or(true) && subnet.unwrap_or(true);
    if deny {
        !all
    } else {
        all
    }
}
