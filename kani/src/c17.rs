//! C17 — Akamai HTTP/2 fingerprint: the payload decoders against the RFC 7540 §6 layouts, and
//! which frames contribute (first SETTINGS on stream 0, first connection-level WINDOW_UPDATE,
//! every PRIORITY frame).  The S|WU|P|PS string, its hash, the pseudo-header order (HPACK) and the
//! incremental extractor sit on `format!`/SHA-256/hpack: outside reach.
use huginn_net_http::akamai::{Http2Priority, SettingId, SettingParameter};
use huginn_net_http::akamai_extractor::{
    parse_priority_payload, parse_settings_payload, parse_window_update_payload,
    verif_select_fingerprint_parts,
};
use huginn_net_http::http2_parser::{Http2Frame, Http2FrameType};

#[kani::proof]
pub fn c17_setting_id_roundtrip() {
    let id: u16 = kani::any();
    let s = SettingId::from(id);
    assert!(s.as_u16() == id, "C17 setting id is kept as sent (known and unknown ids)");
    let known = matches!(id, 1 | 2 | 3 | 4 | 5 | 6 | 9);
    assert!(matches!(s, SettingId::Unknown(_)) == !known, "C17 unknown ids stay unknown");
}

/// SETTINGS payload of LEN bytes (concrete length, every byte symbolic): 6-byte pairs in wire
/// order, big-endian id/value, unknown ids kept, trailing partial pair ignored.
/// (A symbolic length made the Vec grow under a symbolic loop bound: 196 s / 11 GB for 18 bytes.)
fn settings_payload<const LEN: usize>() {
    let buf: [u8; LEN] = kani::any();
    let got = parse_settings_payload(&buf);
    assert!(got.len() == LEN / 6, "C17 one parameter per complete 6-byte pair, partial pair ignored");
    let mut k = 0;
    while k < LEN / 6 {
        let o = k * 6;
        let id = ((buf[o] as u16) << 8) | buf[o + 1] as u16;
        let value = ((buf[o + 2] as u32) << 24) | ((buf[o + 3] as u32) << 16) | ((buf[o + 4] as u32) << 8) | buf[o + 5] as u32;
        assert!(got[k].id.as_u16() == id, "C17 setting ids in wire order, big-endian");
        assert!(got[k].value == value, "C17 setting values big-endian");
        k += 1;
    }
    core::mem::forget(got);
}

macro_rules! settings_harness {
    ($name:ident, $len:expr) => {
        #[kani::proof]
        #[kani::unwind(10)]
        pub fn $name() {
            settings_payload::<$len>()
        }
    };
}
settings_harness!(c17_settings_payload_0, 0);
settings_harness!(c17_settings_payload_5, 5);
settings_harness!(c17_settings_payload_6, 6);
settings_harness!(c17_settings_payload_11, 11);
settings_harness!(c17_settings_payload_12, 12);
settings_harness!(c17_settings_payload_18, 18);
settings_harness!(c17_settings_payload_23, 23);
settings_harness!(c17_settings_payload_36, 36);

#[kani::proof]
#[kani::unwind(10)]
pub fn c17_window_update_payload() {
    let buf: [u8; 8] = kani::any();
    let len: usize = kani::any();
    kani::assume(len <= 8);
    let got = parse_window_update_payload(&buf[..len]);
    if len < 4 {
        assert!(got.is_none(), "C17 WINDOW_UPDATE shorter than 4 bytes yields nothing");
    } else {
        let want = (((buf[0] & 0x7f) as u32) << 24) | ((buf[1] as u32) << 16) | ((buf[2] as u32) << 8) | buf[3] as u32;
        assert!(got == Some(want), "C17 WINDOW_UPDATE increment: 31 bits big-endian, reserved bit cleared");
    }
}

#[kani::proof]
#[kani::unwind(10)]
pub fn c17_priority_payload() {
    let buf: [u8; 8] = kani::any();
    let len: usize = kani::any();
    kani::assume(len <= 8);
    let sid: u32 = kani::any();
    let got = parse_priority_payload(sid, &buf[..len]);
    if len < 5 {
        assert!(got.is_none(), "C17 PRIORITY shorter than 5 bytes yields nothing");
    } else {
        let dep = (((buf[0] & 0x7f) as u32) << 24) | ((buf[1] as u32) << 16) | ((buf[2] as u32) << 8) | buf[3] as u32;
        match got {
            Some(p) => {
                assert!(p.stream_id == sid, "C17 PRIORITY keeps its stream id");
                assert!(p.exclusive == (buf[0] & 0x80 != 0), "C17 PRIORITY exclusive bit");
                assert!(p.depends_on == dep, "C17 PRIORITY 31-bit dependency, big-endian");
                assert!(p.weight == buf[4], "C17 PRIORITY weight byte");
            }
            None => assert!(false, "C17 a 5-byte PRIORITY payload is decoded"),
        }
    }
}

// ------------------------------------------------------------------ frame selection
fn frame(ty: u8, stream_id: u32, payload: &[u8]) -> Http2Frame {
    Http2Frame::new(ty, 0, stream_id, payload.to_vec())
}

/// three frames of concrete types and stream ids in a concrete order, symbolic payload bytes
/// (symbolic stream ids: the selected frame becomes a symbolic pointer, 15 GB)
fn select3(t0: u8, t1: u8, t2: u8, s0: u32, s1: u32, s2: u32) {
    let p0: [u8; 6] = kani::any();
    let p1: [u8; 6] = kani::any();
    let p2: [u8; 6] = kani::any();
    let types = [t0, t1, t2];
    let sids = [s0, s1, s2];
    let pays = [p0, p1, p2];
    let frames = [frame(t0, s0, &p0), frame(t1, s1, &p1), frame(t2, s2, &p2)];
    let (settings, wu, prios) = verif_select_fingerprint_parts(&frames);
    // oracle
    let mut first_settings: Option<usize> = None;
    let mut first_wu: Option<usize> = None;
    let mut nprio = 0usize;
    let mut i = 0;
    while i < 3 {
        if types[i] == 4 && sids[i] == 0 && first_settings.is_none() {
            first_settings = Some(i);
        }
        if types[i] == 8 && sids[i] == 0 && first_wu.is_none() {
            first_wu = Some(i);
        }
        if types[i] == 2 {
            nprio += 1;
        }
        i += 1;
    }
    match first_settings {
        Some(i) => {
            assert!(settings.len() == 1, "C17 settings come from the first SETTINGS frame on stream 0");
            let id = ((pays[i][0] as u16) << 8) | pays[i][1] as u16;
            assert!(settings[0].id.as_u16() == id, "C17 settings come from the first SETTINGS frame on stream 0");
        }
        None => assert!(settings.is_empty(), "C17 no SETTINGS frame on stream 0, no settings"),
    }
    match first_wu {
        Some(i) => {
            let want = (((pays[i][0] & 0x7f) as u32) << 24) | ((pays[i][1] as u32) << 16) | ((pays[i][2] as u32) << 8) | pays[i][3] as u32;
            assert!(wu == want, "C17 window update is the first connection-level (stream 0) WINDOW_UPDATE increment");
        }
        None => assert!(wu == 0, "C17 no connection-level WINDOW_UPDATE: 0 (rendered 00)"),
    }
    assert!(prios.len() == nprio, "C17 every PRIORITY frame contributes");
    if nprio > 0 {
        // the first PRIORITY frame in wire order is the first entry, with its own stream id
        let mut j = 0;
        while j < 3 && types[j] != 2 {
            j += 1;
        }
        assert!(prios[0].stream_id == sids[j] && prios[0].weight == pays[j][4], "C17 PRIORITY frames in wire order with their stream ids");
    }
    kani::cover!(prios.len() == nprio, "selection evaluated");
    core::mem::forget(frames);
    core::mem::forget(settings);
    core::mem::forget(prios);
}

macro_rules! select_harness {
    ($name:ident, $t0:expr, $t1:expr, $t2:expr, $s0:expr, $s1:expr, $s2:expr) => {
        #[kani::proof]
        #[kani::unwind(8)]
        pub fn $name() {
            select3($t0, $t1, $t2, $s0, $s1, $s2)
        }
    };
}
// 4 = SETTINGS, 8 = WINDOW_UPDATE, 2 = PRIORITY; stream ids after the types
select_harness!(c17_select_s0_wu0_wu0, 4, 8, 8, 0, 0, 0);
select_harness!(c17_select_s0_wu3_wu0, 4, 8, 8, 0, 3, 0);
select_harness!(c17_select_s0_wu3_wu5, 4, 8, 8, 0, 3, 5);
select_harness!(c17_select_wu0_s0_wu0, 8, 4, 8, 0, 0, 0);
select_harness!(c17_select_s1_s0_wu0, 4, 4, 8, 1, 0, 0);
select_harness!(c17_select_s0_s0_wu7, 4, 4, 8, 0, 0, 7);
select_harness!(c17_select_s0_p3_p5, 4, 2, 2, 0, 3, 5);
select_harness!(c17_select_p0_wu0_s0, 2, 8, 4, 0, 0, 0);
select_harness!(c17_select_s0_wu1_p1, 4, 8, 2, 0, 1, 1);
